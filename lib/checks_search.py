"""Checks decided by Search.tla through MC_Search (model) and TraceSearch.tla (real search under the virtual clock):
C07 C10 C11 C12 C18."""
import glob
import json
import os
import re
import shutil

import checks_rules as R
import gentrees
import vcommon
from vcommon import Run, ToolError, log


def model_search(run, tier, maxd=3, with_null=False, count=None, label="MC_Search", cfg="MC_Search_fixed.cfg"):
    """Design level: Search.tla (the engine's PVS / quiescence / root loop transcribed, clock expiring at query k)
    on a generated family of abstract trees x EVERY expiry index; invariants = prefix, sends, record restored,
    score bounds / monotonicity, exactness against Ref at depths <= 3, repetition draw, mate in one."""
    n = count or (300 if tier == "quick" else 3000)
    path = os.path.join(vcommon.BUILD, "trees-%s-%d.ndjson" % (label, os.getpid()))
    gentrees.write_trees(path, vcommon.seed() * 7919 + maxd, n, maxd, 3, with_null)
    r = vcommon.tlc("MC_Search", cfg, env={"TREES": path, "MAXD": str(maxd)}, workers=vcommon.NCPU, xmx="8g", timeout=3000)
    os.remove(path)
    if not r["ok"]:
        raise ToolError("Search model run failed:\n" + r["out"][-3000:])
    run.add("states", r["distinct"])
    run.add("transitions", r["states"])
    run.cov.setdefault("model", []).append({"module": "MC_Search (%s)" % cfg, "trees": n, "max_depth": maxd, "null_move_nodes": with_null,
                                            "tree_x_expiry_states": r["distinct"], "wall_s": round(r["wall"], 1)})


def skey(ev, ctx, code):
    cmd = (ev.get("cmd") or (ctx or {}).get("cmd") or "").replace(" ", "_")
    if ev["ev"] == "srun":
        return "%s:%s:k=%d" % (code, cmd, ev["k"])
    if ev["ev"] == "sallow":
        return "%s:%s:allowance=%d" % (code, cmd, ev["a"])
    return "%s:%s" % (code, cmd)


def judge(run, pid, results, kind, also=(), collect=None):
    totals, other = {}, {}
    for r in results:
        v = r["verdict"]
        run.add("states", r["distinct"])
        run.add("transitions", max(r["states"] - 1, 0))
        run.add("traces_validated_against_impl", 1)
        run.add("events_validated", v["lines"])
        for k, n in v["cnt"].items():
            totals[k] = totals.get(k, 0) + n
        if not v["bad"]:
            continue
        lines = [json.loads(x) for x in open(r["file"])]
        for prop, line, code, detail in v["bad"]:
            if prop == "TOOL":
                raise ToolError("trace %s line %d: %s %s" % (r["file"], line, code, detail))
            if prop == pid or prop in also:
                ev = lines[line - 1]
                ctx = None
                if ev["ev"] in ("srun", "sallow"):
                    for j in range(line - 1, -1, -1):
                        if lines[j]["ev"] == "sfull":
                            ctx = lines[j]
                            break
                cmd = ev.get("cmd") or (ctx or {}).get("cmd")
                run.violation(skey(ev, ctx, code), "%s: %s" % (code, detail),
                              {"type": "scenario", "kind": kind, "cmd": cmd, "k": ev.get("k"), "depth": (ctx or ev).get("D")})
            else:
                other[prop] = other.get(prop, 0) + 1
                run.foreign(prop, code, detail)
                if collect is not None:
                    collect.append((prop, code, detail, lines[line - 1]))
    if other:
        log("conjuncts of other properties failed in the same trace (not judged here): %s" % other)
    ec = run.cov.setdefault("event_counts", {})
    for k, n in totals.items():
        ec[k] = ec.get(k, 0) + n
    return totals


def perpetual_family(run, scen, quick, want):
    """Direction spec -> code: TLC enumerates from Chess.tla alone the members of Fam.tla's family `perp` (king + queen against
    a king on the edge that is ahead in material) that hold a FORCED perpetual check, and appends them to the scenario file:
    `want` = "root" -> the checking side to move without a history and after one cycle (C12: the perpetual returns to the root
    at ply 4, a second / a third occurrence); "offer" -> two cycles and a half, the side that is ahead in check with its only
    move leading into a position that has occurred twice (C10)."""
    smp = 2 if quick else 1
    r = vcommon.tlc("Fam", "Fam_perp.cfg", env={"FAMILY": "perp", "SAMPLE": str(smp), "OFFSET": str(vcommon.seed() % smp)}, workers=vcommon.NCPU, xmx="8g", timeout=3000)
    if not r["ok"]:
        raise ToolError("perp family enumeration failed:\n%s" % r["out"][-1500:])
    members = vcommon.tlc_prints(r["out"], "PERP")
    if len(members) < 5:
        raise ToolError("coverage hole: perp family too small (%d)" % len(members))
    run.add("states", r["distinct"])
    run.add("transitions", r["states"])
    rev = lambda t: t[2:4] + t[0:2]
    extra = []
    for m in members:
        fen = m[1]
        for t1, t2 in sorted(tuple(x) for x in m[2]):
            cyc = [t1, t2, rev(t1), rev(t2)]
            if want == "root":
                extra.append({"tag": "small", "cmd": "position fen " + fen})
                extra.append({"tag": "small", "cmd": "position fen %s moves %s" % (fen, " ".join(cyc))})
            else:
                extra.append({"tag": "rep", "cmd": "position fen %s moves %s" % (fen, " ".join(cyc + cyc + cyc[:3]))})
            break
    sc = json.load(open(scen))
    json.dump(sc + extra, open(scen, "w"))
    run.cov["perpetual_family"] = {"members_with_a_forced_perpetual": len(members), "placements_enumerated": r["distinct"], "sample": "1/%d" % smp,
                                   "scenarios_added": len(extra)}


def make_scenarios(h, small, mate, rep, game, label, fam=0, deep=0):
    path = os.path.join(vcommon.BUILD, "scen-%s-%d.json" % (label, os.getpid()))
    vcommon.run_harness(h, ["scen", "--out", path, "--seed", vcommon.seed(), "--small", small, "--mate", mate, "--rep", rep, "--game", game, "--fam", fam, "--deep", deep])
    return path


def run_expiry(run, pid, h, scen, tags, depth, cap, budget, maxmate, label, also=()):
    d = R.trace_dir(pid + "-" + label)
    summ = vcommon.run_harness(h, ["expiry", "--scen", scen, "--out", d, "--shards", vcommon.NCPU * (1 if run.tier == "quick" else 4), "--seed", vcommon.seed(), "--depth", depth,
                                   "--cap", cap, "--budget", budget, "--tags", tags, "--tag", label])
    files = sorted(glob.glob(os.path.join(d, "search*.ndjson")))
    results = vcommon.validate_shards("TraceSearch", "TraceSearch.cfg", files, env_extra={"MAXMATE": str(maxmate)})
    totals = judge(run, pid, results, "expiry", also)
    for s in summ["scenarios"][:3]:
        run.sample({"scenario": s["cmd"], "completed_depth": s["D"], "clock_queries_to_end_of_depth": s["K"], "expiry_points_run": s["runs"],
                    "every_expiry_point": s["exhaustive"]})
    shutil.rmtree(d, ignore_errors=True)
    return totals, summ


def run_trees(run, pid, h, scen, tags, depth, cap, budget, label, collect=None):
    d = R.trace_dir(pid + "-" + label)
    summ = vcommon.run_harness(h, ["trees", "--scen", scen, "--out", d, "--shards", vcommon.NCPU * (1 if run.tier == "quick" else 6), "--depth", depth, "--cap", cap, "--budget", budget, "--tags", tags])
    files = sorted(glob.glob(os.path.join(d, "search*.ndjson")))
    results = vcommon.validate_shards("TraceSearch", "TraceSearch.cfg", files, env_extra={"MAXMATE": "2"})
    totals = judge(run, pid, results, "tree", collect=collect)
    skipped = [s for s in summ["scenarios"] if "skipped" in s]
    run.cov["trees_recorded"] = run.cov.get("trees_recorded", 0) + summ["trees"]
    run.cov["trees_skipped_by_cap"] = run.cov.get("trees_skipped_by_cap", 0) + len(skipped)
    for s in [x for x in summ["scenarios"] if "nodes" in x][:3]:
        run.sample({"scenario": s["cmd"], "depth": s["D"], "tree_nodes": s["nodes"], "with_history": s["history"]})
    shutil.rmtree(d, ignore_errors=True)
    return totals, summ


def run_matecerts(run, pid, h, scen, randoms, lo, hi, budget, label, shorter=0):
    """Mate announcements of lo..hi moves: the harness finds a proof / refutation certificate, TraceSearch checks it node by
    node against Chess.tla and thereby decides the announcement (direction code -> spec with a checked witness)."""
    d = R.trace_dir(pid + "-" + label)
    args = ["matecert", "--out", d, "--shards", vcommon.NCPU, "--seed", vcommon.seed(), "--randoms", randoms, "--lo", lo, "--hi", hi, "--budget", budget, "--node-cap", 20000]
    if scen:
        args += ["--scen", scen]
    if shorter:
        args += ["--claim-shorter", shorter]
    summ = vcommon.run_harness(h, args)
    files = sorted(glob.glob(os.path.join(d, "search*.ndjson")))
    results = vcommon.validate_shards("TraceSearch", "TraceSearch.cfg", files, env_extra={"MAXMATE": "2"})
    totals = judge(run, pid, results, "mcert")
    shutil.rmtree(d, ignore_errors=True)
    return totals, summ


def rep_tree_differential(run, h, scen, tags, label):
    """C10, value clause.  `value = Ref` on a recorded tree is C12's conjunct (exactness of shallow search).  A mismatch is C10's
    when it is the HISTORY that causes it: the same root position searched without a history (its twin) is valued exactly, with
    the history it is not - then what the search does differently from the reference is how it values positions that have
    occurred before."""
    mism = []
    run_trees(run, "C10", h, scen, tags, 3, 60000, 400000, label, collect=mism)
    mism = [m for m in mism if m[0] == "C12" and m[3].get("root_fen")]
    if not mism:
        return
    twins = os.path.join(vcommon.BUILD, "scen-C10twins-%d.json" % os.getpid())
    fens = sorted({m[3]["root_fen"] for m in mism})[:40]
    json.dump([{"tag": "twin", "cmd": "position fen " + f} for f in fens], open(twins, "w"))
    tw = []
    run_trees(run, "C10", h, twins, "twin", 3, 60000, 400000, "twintrees", collect=tw)
    os.remove(twins)
    inexact_without_history = {m[3].get("root_fen") for m in tw if m[0] == "C12"}
    seen = set()
    for prop, code, detail, ev in mism:
        if ev["root_fen"] in fens and ev["root_fen"] not in inexact_without_history and ev["cmd"] not in seen:
            seen.add(ev["cmd"])
            run.violation("history-changes-exactness:" + ev["cmd"].replace(" ", "_"),
                          "value-with-history: the search is exact on this position without a history and not with it (%s: %s)" % (code, detail),
                          {"type": "scenario", "kind": "tree", "cmd": ev["cmd"], "depth": ev.get("D")})
    run.cov["value_mismatches_in_repetition_scenarios"] = len(mism)
    run.cov["of_them_exact_without_history"] = len(seen)


def replay_scenario(run, pid, replay, also=()):
    spec = json.load(open(replay))["replay"]
    h = vcommon.build_harness()
    path = os.path.join(vcommon.BUILD, "scen-replay-%d.json" % os.getpid())
    json.dump([{"tag": "replay", "cmd": spec["cmd"]}], open(path, "w"))
    if spec.get("kind") == "mcert":
        run_matecerts(run, pid, h, path, 0, 1, 8, 1500000, "replay")
    elif spec.get("kind") == "tree" and pid == "C10":
        rep_tree_differential(run, h, path, "replay", "replay")
    elif spec.get("kind") == "tree":
        run_trees(run, pid, h, path, "replay", spec.get("depth") or 3, 60000, 400000, "replay")
    else:
        run_expiry(run, pid, h, path, "replay", spec.get("depth") or 3, 100000, 400000, 3, "mate" if pid == "C11" else "replay", also)
    os.remove(path)


def mk(pid, tier, replay):
    return Run(pid, tier, "model_checking", replay=bool(replay) or bool(os.environ.get("VERIF_NO_EVIDENCE")))


def c07(tier, replay):
    run = mk("C07", tier, replay)
    if replay:
        replay_scenario(run, "C07", replay)
        return run.finish()
    h = vcommon.build_harness()
    q = tier == "quick"
    scen = make_scenarios(h, 8 if q else 40, 2 if q else 10, 4 if q else 20, 3 if q else 12, "C07", 10 if q else 60)
    totals, summ = run_expiry(run, "C07", h, scen, "small,mate,rep,game,fam", 3, 2500 if q else 6000, 300000, 2, "expiry")
    if totals.get("srun", 0) == 0 or totals.get("cut_before_first", 0) == 0:
        raise ToolError("coverage hole: no expiry runs / no run cut before the first improvement")
    if totals.get("sallow", 0) == 0:
        raise ToolError("coverage hole: no runs with another allowance")
    run.cov["runs_with_another_allowance"] = totals.get("sallow", 0)
    # searches that run to the END (iteration 99): positions whose root can repeat are searched in no time per depth, so the
    # reference run reaches the last iteration inside the query budget - lines then run past ply 99 through check
    # extensions and the null move's ply offset, where the per-ply tables end
    scen2 = make_scenarios(h, 0, 0, 12 if q else 60, 0, "C07deep", 0, 160 if q else 1200)
    t2, summ2 = run_expiry(run, "C07", h, scen2, "rep,deep", 4, 40 if q else 200, 400000, 2, "deep")
    os.remove(scen2)
    run.cov["searches_run_to_the_last_iteration"] = t2.get("reached_last_iteration", 0)
    if t2.get("reached_last_iteration", 0) < 3:
        raise ToolError("coverage hole: fewer than 3 searches reached the last iteration")
    run.cov["expiry_points_enumerated"] = summ["runs"]
    run.cov["scenarios"] = len(summ["scenarios"])
    run.cov["scenarios_with_every_expiry_point"] = sum(1 for s in summ["scenarios"] if s["exhaustive"])
    # the real binary under the real clock: every info line of a search belongs to a board it handed over before (k-th line,
    # k-th board), and a search that has been answered prints at most the one line it still owes (instrumented binary:
    # srch_send / srch_print / io_exit events against Walleye.tla's SrchSend / SrchPrint / PollExit / OrphanLastLine)
    import checks_uci
    checks_uci.thread_events(run, "C07", tier)
    model_search(run, tier, 3)
    # iteration 4 with null-move nodes (the aborted null-move sub-search is where a sentinel turns into an ordinary bound)
    model_search(run, tier, 4, True, 120 if q else 1200, "MC_Search_null")
    # the per-ply tables end at MaxPly (3 in this configuration, so that depth-4 trees with check extensions and the null
    # move's ply offset run past it): nodes beyond are horizon nodes, nothing indexes past the tables, and prefix / sends /
    # record / score conjuncts still hold at every expiry index
    model_search(run, tier, 4, True, 100 if q else 1000, "MC_Search_plybound", cfg="MC_Search_plybound.cfg")
    run.cov["rule"] = ("scenarios = random small endgames, mate positions, third-repetition histories and game positions with their history; for each, "
                       "a reference run to the end of iteration 3 under the virtual clock, then ONE RUN PER EXPIRY INDEX k = 0..K (all of them when "
                       "K <= cap, else all below cap/2 plus a random sample); TLC checks per run: infos/sends are prefixes of the reference (or exactly "
                       "the fallback), nothing accepted after the first expired query, repetition record restored, no panic, sends legal root moves; "
                       "plus, per scenario, the same search handed eleven other ALLOWANCES (1 ms .. 10 min, virtual expiry far out): lines and boards "
                       "prefix-related to the reference (`sallow` events)")
    os.remove(scen)
    return run.finish()


def c18(tier, replay):
    run = mk("C18", tier, replay)
    if replay:
        spec = json.load(open(replay))["replay"]
        if spec.get("type") == "session":
            import checks_uci
            return checks_uci.replay_session(run, "C18", spec)
        replay_scenario(run, "C18", replay)
        return run.finish()
    h = vcommon.build_harness()
    q = tier == "quick"
    scen = make_scenarios(h, 6 if q else 30, 4 if q else 20, 3 if q else 15, 4 if q else 16, "C18", 8 if q else 50)
    totals, summ = run_expiry(run, "C18", h, scen, "small,mate,rep,game,fam", 4, 1200 if q else 4000, 400000, 2, "expiry")
    # many more positions with the full run and a handful of expiry points only: promotion races, under-promotions, special
    # moves that give check, mates - the lines whose scores sit at the edges of the ranges (a mate found inside the capture
    # search has no distance: `mate 0`)
    scen2 = make_scenarios(h, 0, 16 if q else 120, 0, 0, "C18wide", 80 if q else 600)
    t2, _ = run_expiry(run, "C18", h, scen2, "mate,fam", 3, 4, 400000, 2, "wide")
    os.remove(scen2)
    run.cov["wide_scenarios"] = t2.get("sfull", 0)
    if totals.get("infos", 0) == 0:
        raise ToolError("coverage hole: no info lines")
    os.remove(scen)
    import checks_uci
    checks_uci.timed_info_lines(run, "C18", tier)
    model_search(run, tier, 3)
    run.cov["rule"] = ("every info line of every run (reference runs to depth 4 and every enumerated expiry point) is tokenised by a strict parser; TLC checks "
                       "shape, depth >= 1 and non-decreasing, mate value non-zero and small, |cp| below the sentinel and the mate magnitude, strictly "
                       "increasing scores inside a depth in the order the text induces, first pv move (from/to) legal in the searched position; plus the "
                       "info lines of timed searches of the real binary")
    return run.finish()


def c10(tier, replay):
    run = mk("C10", tier, replay)
    if replay:
        spec = json.load(open(replay))["replay"]
        if spec.get("type") == "position":
            R.replay_position(run, "C10", spec["cmd"])
        elif spec.get("type") == "session":
            import checks_uci
            return checks_uci.replay_session(run, "C10", spec)
        else:
            replay_scenario(run, "C10", replay)
        return run.finish()
    h = vcommon.build_harness()
    q = tier == "quick"
    # (a) the record after play_out_position: exact multiset of identities
    totals, _ = R.rules_trace(run, "C10", ["--playouts", 200 if q else 3000, "--plies", 40, "--pos", 1, "--repeat-bias", 0.6, "--gen", 0], "record")
    R.need(totals, ["pos"])
    # (a') the same position occurring 4, 5, 10, 30 and 100 times (counts beyond three must still be exact), in games of more
    # than 100 plies too (a record that only keeps the last hundred plies "because of the fifty-move rule" loses the early ones)
    longs = ["position startpos moves " + " ".join(["g1f3 g8f6 f3g1 f6g8"] * c) for c in ((3, 4, 9, 30) if q else (3, 4, 9, 24, 30, 60))]
    longs += ["position fen 8/8/8/4k3/8/8/8/4K2R w K - 0 1 moves " + " ".join(["h1h2 e5e6 h2h1 e6e5"] * c) for c in ((4, 12, 27) if q else (4, 12, 27, 40))]
    dl = R.trace_dir("C10-long")
    for i, cmd in enumerate(longs):
        sub = os.path.join(dl, "c%d" % i)
        vcommon.run_harness(h, ["position", "--out", sub, "--cmd", cmd])
        shutil.move(os.path.join(sub, "rules00.ndjson"), os.path.join(dl, "rules%02d.ndjson" % i))
    R.judge(run, "C10", vcommon.validate_shards("TraceRules", "TraceRules.cfg", sorted(glob.glob(os.path.join(dl, "rules*.ndjson")))))
    shutil.rmtree(dl, ignore_errors=True)
    run.cov["long_repetition_commands"] = len(longs)
    # (b) the record inside the real command loop (several position commands per session; sees a missing clear())
    import checks_uci
    checks_uci.position_dumps(run, "C10", tier)
    # (c) search on histories that offer a third repetition: completed depths never below zero; value = Ref with the record
    scen = make_scenarios(h, 0, 0, 24 if q else 150, 0, "C10")
    perpetual_family(run, scen, q, "offer")
    t2, summ = run_expiry(run, "C10", h, scen, "rep", 4, 0, 400000, 2, "rep")
    if t2.get("sfull", 0) == 0:
        raise ToolError("coverage hole: no repetition scenarios")
    rep_tree_differential(run, h, scen, "rep", "reptrees")
    os.remove(scen)
    model_search(run, tier, 3)
    run.cov["rule"] = ("(a) games with forced repetitions through play_out_position: TLC recomputes the multiset of Chess!Identity over the history and compares it "
                       "with the record; (b) the same inside the real loop from the instrumented binary; (c) histories X a-b, Y c-d, X b-a, Y d-c, ... built so "
                       "that the mover can step into a position seen twice: last score of every completed depth >= 0 (TLC), value = Search!Ref on the recorded tree")
    return run.finish()


def c11(tier, replay):
    run = mk("C11", tier, replay)
    if replay:
        replay_scenario(run, "C11", replay)
        return run.finish()
    h = vcommon.build_harness()
    q = tier == "quick"
    scen = make_scenarios(h, 8 if q else 60, 30 if q else 250, 0, 0, "C11", 14 if q else 120)
    # direction spec -> code: TLC enumerates (from Chess.tla alone) the placements of K+Q / K+R near a bare king on the edge that
    # have a mate in one for the mover ("mating") or where the bare king has moves that walk into one and moves that do not ("avoid")
    fam_cov = {}
    extra = []
    for fam, tagname, smp in (("mating", "MATE1", 80 if q else 40), ("avoid", "AVOID", 240 if q else 120), ("minor", "MATE1", 20 if q else 6)):
        r = vcommon.tlc("Fam", "Fam_%s.cfg" % ("mating" if fam == "minor" else fam), env={"FAMILY": fam, "SAMPLE": str(smp), "OFFSET": str(vcommon.seed() % smp)},
                        workers=vcommon.NCPU, xmx="8g", timeout=3000)
        if not r["ok"]:
            raise ToolError("%s family enumeration failed:\n%s" % (fam, r["out"][-1500:]))
        members = vcommon.tlc_prints(r["out"], tagname)
        if len(members) < (3 if fam == "minor" else 10):
            raise ToolError("coverage hole: %s family too small (%d)" % (fam, len(members)))
        run.add("states", r["distinct"])
        run.add("transitions", r["states"])
        fam_cov[fam] = {"members_with_the_feature": len(members), "placements_enumerated": r["distinct"], "sample": "1/%d" % smp}
        extra += [{"tag": "mate", "cmd": "position fen " + m[1]} for m in members]
    # back-rank motifs: the greedy capture of an undefended heavy piece walks into a mate on the own back rank while quiet
    # moves are several hundred centipawns worse - the positions in which a search that prunes or narrows its root
    # window by the previous score sits on the blunder (files mirrored, colours swapped)
    def mirror_files(fen):
        pl, rest = fen.split(" ", 1)
        rows = []
        for row in pl.split("/"):
            cells = []
            for ch in row:
                cells += ["1"] * int(ch) if ch.isdigit() else [ch]
            cells.reverse()
            out, gap = "", 0
            for c_ in cells:
                if c_ == "1":
                    gap += 1
                else:
                    out += (str(gap) if gap else "") + c_
                    gap = 0
            rows.append(out + (str(gap) if gap else ""))
        return "/".join(rows) + " " + rest
    backrank = ["3q2k1/5ppp/8/8/8/8/3Q1PPP/4R1K1 b - - 0 1", "4r1k1/3q1ppp/8/8/8/8/5PPP/3Q2K1 w - - 0 1",
                "4r1k1/3p1ppp/8/8/8/8/5PPP/3R2K1 w - - 0 1", "3r2k1/5ppp/8/8/8/8/3P1PPP/4R1K1 b - - 0 1"]
    backrank += [mirror_files(f) for f in backrank]
    extra += [{"tag": "mate", "cmd": "position fen " + f} for f in backrank]
    run.cov["families_from_spec"] = fam_cov
    sc = json.load(open(scen))
    json.dump(sc + extra, open(scen, "w"))
    totals, summ = run_expiry(run, "C11", h, scen, "small,mate,fam", 4 if q else 5, 0, 600000, 2 if q else 3, "mate")
    if totals.get("mates", 0) == 0:
        raise ToolError("coverage hole: no mate scores in this run")
    run.cov["mate_lines_judged"] = totals.get("mates", 0)
    # longer announcements (3..6 moves): decided through checked certificates; scenarios = the ones above plus random small
    # endgames in which the mover has a forced mate in 3..6 (or the bare side is mated in 2..5), searched much deeper
    # tempo endings in which the same position is reached at different plies inside the mating net (K+Q / K+R v K with the
    # kings close): where a search that remembers scores across plies announces a mate too early (files mirrored too)
    tempo = ["8/3K4/7k/1Q6/8/8/8/8 w - - 0 1", "8/8/8/8/5R2/8/4K1k1/8 w - - 0 1", "4K1k1/8/5R2/8/8/8/8/8 w - - 0 1",
             "8/8/8/8/8/1q6/7K/3k4 b - - 0 1", "8/8/8/8/2r5/8/1K1k4/8 b - - 0 1"]
    sc2 = json.load(open(scen))
    json.dump(sc2 + [{"tag": "mate", "cmd": "position fen " + f} for f in tempo + [mirror_files(f) for f in tempo]], open(scen, "w"))
    t3, s3 = run_matecerts(run, "C11", h, scen, 70 if q else 1500, 3, 6, 250000 if q else 600000, "mcert")
    run.cov["mate_certificates"] = {"announcements_decided_by_a_checked_certificate": t3.get("mcert_proofs", 0) + t3.get("mcert_refutations", 0),
                                    "of_them_longer_than_3_moves": t3.get("mcert_beyond_3", 0), "certificate_nodes_checked_against_the_rules": t3.get("mcert_nodes", 0),
                                    "no_certificate_within_the_caps": t3.get("mcert_none", 0), "positions_searched": s3.get("scenarios", 0)}
    if t3.get("mcert_proofs", 0) < 5:
        raise ToolError("coverage hole: fewer than 5 long mate announcements were decided by certificate")
    os.remove(scen)
    model_search(run, tier, 3)
    run.cov["rule"] = ("scenarios = random endgames (KQ, KR, KRR, KQ v KR, minor + pawns ...) filtered to those with a mate in one for the mover or where some "
                       "but not all moves allow a mate in one, plus unfiltered ones, plus the members of the TLC-enumerated families `mating` and `avoid` (K+Q / K+R near a bare king on the edge); search to depth 4 (5 thorough) under the virtual clock; TLC re-derives on "
                       "Chess.tla: the set of mating moves / safe moves, MateWithin(root, N) for every `score mate N` line, MatedWithin for the last line of "
                       "completed depths")
    run.assumptions.append("mate claims are re-derived by brute force (MateWithin) up to N = %d on every line; the strongest claim of 3..6 moves of every deeply searched "
                           "position is decided through a certificate checked by TLC; larger N are counted but not judged" % (2 if q else 3))
    return run.finish()


def c12(tier, replay):
    run = mk("C12", tier, replay)
    if replay:
        replay_scenario(run, "C12", replay)
        return run.finish()
    h = vcommon.build_harness()
    q = tier == "quick"
    scen = make_scenarios(h, 12 if q else 150, 8 if q else 40, 8 if q else 60, 6 if q else 60, "C12", 90 if q else 600)
    perpetual_family(run, scen, q, "root")
    totals, summ = run_trees(run, "C12", h, scen, "small,mate,rep,game,fam", 3, 60000, 400000, "trees")
    if totals.get("stree", 0) < 5:
        raise ToolError("coverage hole: fewer than 5 trees recorded")
    os.remove(scen)
    model_search(run, tier, 3)
    run.cov["rule"] = ("the harness records the full game tree of each scenario to depth 3 with the engine's own generator and evaluator (full-width part as a tree, "
                       "capture part as a position-memoised DAG, cap 60000 nodes, larger ones fall back to depth 2/1 or are skipped and counted) and runs the real "
                       "search under the virtual clock; TLC evaluates Search!Ref (plain negamax with the property's leaf rules) on the recorded tree and compares, "
                       "for D = 1..3, the last info score of depth D and the value of the selected root move; with and without a repetition history")
    return run.finish()


def selfcheck(quick):
    """Bug variants of the search model must fail (anti-vacuity)."""
    path = os.path.join(vcommon.BUILD, "trees-selfcheck.ndjson")
    gentrees.write_trees(path, 1, 60, 3, 3)
    rc = 0
    for cfg, inv in (("MC_Search_noguard.cfg", "InvPrefix"), ("MC_Search_repeq.cfg", "InvExact"), ("MC_Search_noplyguard.cfg", "InvNoPanic")):
        r = vcommon.tlc("MC_Search", cfg, env={"TREES": path, "MAXD": "3"}, workers=vcommon.NCPU, xmx="8g", timeout=1200)
        m = re.findall(r"Invariant (\w+) is violated", r["out"])
        if not m or (cfg == "MC_Search_noplyguard.cfg" and "InvNoPanic" not in m):
            print("search bug variant %s did not fail as expected" % cfg)
            rc = 2
    # the certificate judge: the harness pretends that every mate announcement was one move shorter than it was; TraceSearch must
    # then REFUTE announcements (a refutation DAG that checks against Chess.tla), not accept them
    run = Run("C11", "quick", "model_checking", replay=True)
    h = vcommon.build_harness()
    t, _ = run_matecerts(run, "C11", h, None, 24 if quick else 80, 3, 6, 150000, "selftest", shorter=1)
    if t.get("mcert_refutations", 0) < 1 or not run.violations:
        print("mate certificates: shortened announcements were not refuted (refutations=%s)" % t.get("mcert_refutations", 0))
        rc = 2
    for v in run.violations:
        if v and os.path.exists(v[2]):
            os.remove(v[2])
    return rc
