"""Random abstract game trees for MC_Search (shapes, evaluations, check flags, repetition keys, terminal nodes)."""
import json
import random


def gen_tree(rng, depth, maxb, with_null=False):
    nodes = []  # dict kids caps eval chk key null

    def mk(d, anc_keys):
        i = len(nodes)
        nodes.append(None)
        key = i + 1
        if anc_keys and rng.random() < 0.18:
            key = rng.choice(anc_keys)
        kids = []
        chk = rng.random() < 0.25 and d > 0
        if d > 0:
            nb = rng.choice([0] + list(range(1, maxb + 1)) * 3)
            for _ in range(nb):
                kids.append(mk(d - 1, anc_keys + [key]))
        caps = [k for k in kids if rng.random() < 0.4]
        nodes[i] = dict(kids=kids, caps=caps, eval=rng.choice([-300, -100, -50, 0, 0, 50, 100, 300]), chk=chk, key=key, null=0)
        return i + 1

    hist = [1000 + j for j in range(3)]
    roots = [mk(depth, hist) for _ in range(rng.randint(1, maxb + 1))]
    # repetition record: some history keys, sometimes keys of root moves / deeper nodes seen once or twice
    rep0 = {}
    for h in hist:
        rep0[h] = rng.choice([1, 1, 2, 3])
    for n in nodes:
        if n["key"] < 1000 and rng.random() < 0.06:
            rep0[n["key"]] = rng.choice([1, 1, 2, 3])
    if with_null:
        for i in range(len(nodes)):
            n = nodes[i]
            if n["kids"]:
                nodes.append(dict(kids=[], caps=[], eval=-n["eval"] + rng.choice([-40, 0, 40]), chk=False, key=n["key"], null=0))
                n["null"] = len(nodes)
    return {"kids": [n["kids"] for n in nodes], "caps": [n["caps"] for n in nodes], "eval": [n["eval"] for n in nodes],
            "chk": [n["chk"] for n in nodes], "key": [n["key"] for n in nodes], "null": [n["null"] for n in nodes],
            "roots": roots, "rep0": [[k, v] for k, v in sorted(rep0.items())]}


def write_trees(path, seed, count, depth, maxb, with_null=False):
    rng = random.Random(seed)
    with open(path, "w") as f:
        for _ in range(count):
            f.write(json.dumps(gen_tree(rng, depth, maxb, with_null)) + "\n")
