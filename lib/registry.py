"""Registry of checks: property id -> function(tier, replay_path) -> exit code."""
import glob
import json
import os
import re
import shutil
import subprocess

import checks_rules as R
import checks_search as S
import checks_uci as UC
import chessutil
import vcommon
from vcommon import Run, ToolError, log

SEEDS_TXT = os.path.join(vcommon.VERIF, "harness", "seeds.txt")


def n_seeds():
    return len([l for l in open(SEEDS_TXT) if l.strip()])


def small_seeds_file():
    path = os.path.join(vcommon.BUILD, "seeds_small.ndjson")
    os.makedirs(vcommon.BUILD, exist_ok=True)
    with open(path, "w") as f:
        for x in open(os.path.join(vcommon.SPEC, "seeds_small.txt")):
            if x.strip():
                f.write(json.dumps(chessutil.fen_to_s(x.strip())) + "\n")
    return path


def model_game(run, tier):
    """Design level: ChessGame.tla (generator / text applier / hash / repetition record written as the code's own
    steps) explored exhaustively by TLC from small-material seeds; every invariant on every object."""
    ply = "2" if tier == "quick" else "3"
    r = vcommon.tlc("MC_Game", "MC_Game_fixed.cfg", env={"SEEDS": small_seeds_file(), "MAXPLY": ply}, workers=vcommon.NCPU,
                    xmx="8g", timeout=3000)
    if not r["ok"]:
        raise ToolError("ChessGame model run failed (the specification of the repaired code must satisfy its invariants):\n"
                        + r["out"][-3000:])
    run.add("states", r["distinct"])
    run.add("transitions", r["states"])
    run.cov["model"] = {"module": "ChessGame (MC_Game_fixed.cfg)", "max_ply": int(ply), "distinct_states": r["distinct"],
                        "states_generated": r["states"], "wall_s": round(r["wall"], 1)}


def mk(pid, tier, replay):
    return Run(pid, tier, "model_checking", replay=bool(replay) or bool(os.environ.get("VERIF_NO_EVIDENCE")))


RULE_TEXT = ("seeded random members of three geometric families (kings and corner rooks with rights plus officers; a double step next to an enemy pawn with kings/sliders on the lines; pawns before promotion with officers on the last rank) each with all its successors (chains of length 1, i.e. two-ply behaviour); exhaustive chains of length 2 (all successors of all successors, budget-capped) from every seed with at most 10 men, plus engine-driven random playouts (biased towards castling, en passant, promotion, double steps, corner rook "
             "moves/captures, repetitions) from %d seed FENs, followed through the engine's own successor objects; every "
             "visited position is one gen event judged by TLC against Chess.tla; events_validated / event_counts are "
             "measured by the specification itself")


def c01(tier, replay):
    run = mk("C01", tier, replay)
    if replay:
        R.replay_walk(run, "C01", replay)
        return run.finish()
    q = tier == "quick"
    totals, summ = R.rules_trace(run, "C01", ["--playouts", 60 if q else 3000, "--plies", 40, "--bfs", 2, "--bfs-budget", 6000 if q else 60000,
                                              "--family", 330 if q else 6000], "playout")
    run.cov["bfs_chain_events"] = summ.get("bfs_events", 0)
    run.cov["family_chain_events"] = summ.get("family_events", 0)
    R.need(totals, ["gen", "castle", "ep", "promo", "incheck"])
    R.family_direction_a(run, "C01", ("moveset", "moveset-after"), {"castle": 4, "ep": 40, "ep2": 40, "promo": 6, "rookcap": 3} if q else {"castle": 1, "ep": 2, "ep2": 2, "promo": 1, "rookcap": 1},
                         fams=("castle", "ep", "ep2", "promo", "rookcap"))
    model_game(run, tier)
    run.cov["rule"] = RULE_TEXT % n_seeds() + "; direction spec->code: TLC-enumerated castling / en-passant / promotion families replayed into the real generator; compared: descriptor set = Chess!Legal both ways, multiplicity"
    return run.finish()


def c02(tier, replay):
    run = mk("C02", tier, replay)
    if replay:
        R.replay_walk(run, "C02", replay)
        return run.finish()
    q = tier == "quick"
    totals, summ = R.rules_trace(run, "C02", ["--playouts", 60 if q else 2000, "--plies", 40, "--text", 1, "--bfs", 2, "--bfs-budget", 4000 if q else 60000,
                                              "--family", 200 if q else 6000], "playout")
    run.cov["bfs_chain_events"] = summ.get("bfs_events", 0)
    run.cov["family_chain_events"] = summ.get("family_events", 0)
    R.need(totals, ["gen", "castle", "ep", "promo"])
    # "every move the engine generates ... however long the chain": the successors of capture-only generation too (their
    # descriptor and position; which captures are generated is C13's business)
    t2, _ = R.rules_trace(run, "C02", ["--playouts", 60 if q else 600, "--plies", 40, "--caps-prob", 0.6, "--caps-budget", 16], "capschains",
                          also=(("C13", "successor"), ("C13", "descriptor")))
    run.cov["capture_chain_events"] = t2.get("gen", 0)
    R.family_direction_a(run, "C02", ("successor-after", "text-printed"), {"castle": 6, "ep": 60, "ep2": 80, "promo": 8, "rookcap": 4} if q else {"castle": 1, "ep": 3, "ep2": 4, "promo": 1, "rookcap": 1},
                         fams=("castle", "ep", "ep2", "promo", "rookcap"))
    model_game(run, tier)
    run.cov["rule"] = RULE_TEXT % n_seeds() + ("; direction spec->code: for every special move (castling, en passant, promotion, landing on a corner) of the TLC-enumerated families the engine's successor object and printed text against Chess!Apply / MoveText; compared per successor: placement, side, rights, ep target, king cache = "
                                               "Chess!Apply; descriptor in Legal; the engine's own printed bestmove text = Chess!MoveText")
    return run.finish()


def c04(tier, replay):
    run = mk("C04", tier, replay)
    if replay:
        spec = json.load(open(replay))["replay"]
        if spec.get("type") == "position":
            R.replay_position(run, "C04", spec["cmd"])
        else:
            R.replay_walk(run, "C04", replay)
        return run.finish()
    n = 120 if tier == "quick" else 2000
    totals, summ = R.rules_trace(run, "C04", ["--playouts", n, "--plies", 40, "--text", 1, "--pos", 1, "--repeat-bias", 0.2,
                                              "--family", 120 if tier == "quick" else 3000], "playout")
    R.need(totals, ["gen", "castle", "ep", "promo", "pos"])
    # (--family: chains through the engine's own successor objects of the seeded castling / en-passant / promotion families -
    # a promotion answered at once by castling, by an en-passant capture, by a double step: every successor's printed text
    # replayed through the text applier must reproduce that successor, also when the parent object was itself a promotion)
    run.cov["family_chain_events"] = summ.get("family_events", 0)
    # the position command inside the real command loop (instrumented binary): board after every position command
    import checks_uci
    checks_uci.position_dumps(run, "C04", tier)
    R.family_direction_a(run, "C04", ("text-after",), {"castle": 8, "ep": 80, "promo": 10, "rookcap": 5} if tier == "quick" else {"castle": 1, "ep": 3, "promo": 1, "rookcap": 1},
                         fams=("castle", "ep", "promo", "rookcap"))
    R.games_direction_a(run, "C04", ("text-apply", "text-apply-panic", "position-final", "position-panic"), 25 if tier == "quick" else 300)
    model_game(run, tier)
    run.cov["rule"] = RULE_TEXT % n_seeds() + ("; direction spec->code: games simulated by TLC from Chess.tla replayed through make_move / play_out_position at every prefix; every generated successor's printed text is replayed through uci::make_move and "
                                               "compared with Chess!Apply and with the generator's successor (key included); whole games "
                                               "through play_out_position compared at every prefix")
    return run.finish()


def c05(tier, replay):
    run = mk("C05", tier, replay)
    if replay:
        spec = json.load(open(replay))["replay"]
        if spec.get("type") == "position":
            R.replay_position(run, "C05", spec["cmd"])
        else:
            R.replay_walk(run, "C05", replay)
        return run.finish()
    h = vcommon.build_harness()
    audit = vcommon.run_harness(h, ["audit"])
    run.cov["zobrist_audit"] = audit
    if audit["constants"] != 781 or audit["distinct"] != 781 or audit["zeros"] != 0:
        run.violation("audit", "Zobrist constants are not 781 distinct non-zero values: %s" % audit, {"type": "audit"})
    n = 200 if tier == "quick" else 2000
    totals, _ = R.rules_trace(run, "C05", ["--playouts", n, "--plies", 40, "--text", 1, "--pos", 1, "--caps-prob", 0.15,
                                            "--repeat-bias", 0.1], "playout")
    R.need(totals, ["gen", "castle", "ep", "promo", "pos"])
    # FEN loader as third producer
    d = R.trace_dir("C05-fen")
    vcommon.run_harness(h, ["fen", "--out", d, "--shards", vcommon.NCPU, "--seed", vcommon.seed(), "--playouts", 40, "--plies", 30, "--fuzz", 0, "--random-strings", 0])
    res = vcommon.validate_shards("TraceRules", "TraceRules.cfg", sorted(glob.glob(os.path.join(d, "rules*.ndjson"))))
    R.judge(run, "C05", res)
    shutil.rmtree(d, ignore_errors=True)
    # pairs: single-component perturbations must change the key, transposed move orders must not
    d = R.trace_dir("C05-pairs")
    ksum = vcommon.run_harness(h, ["keypairs", "--out", d, "--shards", vcommon.NCPU, "--seed", vcommon.seed(), "--playouts", 40 if tier == "quick" else 400, "--plies", 20])
    res = vcommon.validate_shards("TraceRules", "TraceRules.cfg", sorted(glob.glob(os.path.join(d, "rules*.ndjson"))))
    kt = R.judge(run, "C05", res)
    shutil.rmtree(d, ignore_errors=True)
    R.need(kt, ["keypairs", "transpositions"])
    run.cov["key_pairs"] = {"perturbation_pairs": ksum["perturbations"], "transposition_candidates": ksum["transposition_candidates"],
                            "true_transpositions": kt.get("transpositions", 0)}
    # direction spec -> code: the special moves of the TLC-enumerated families (landing on a corner - also by a king -, castling,
    # promotion): the successor's key residue must be empty AND the state it belongs to must be the rules' position (route clause)
    R.family_direction_a(run, "C05", ("residue-after", "successor-after"), {"castle": 8, "promo": 10, "rookcap": 4} if tier == "quick" else {"castle": 1, "promo": 1, "rookcap": 1},
                         fams=("castle", "promo", "rookcap"))
    model_game(run, tier)
    run.assumptions.append("XOR of 64-bit constants is abstracted as symmetric difference of feature sets; sound because the audit "
                           "shows the 781 constants distinct and non-zero (residues are resolved up to three features)")
    run.cov["rule"] = RULE_TEXT % n_seeds() + ("; residue (incremental key XOR key from scratch, resolved to feature ids) must be empty "
                                               "for every state from the generator (both modes), the text applier, play_out_position and the FEN loader")
    return run.finish()


def c06(tier, replay):
    run = mk("C06", tier, replay)
    h = vcommon.build_harness()
    if replay:
        spec = json.load(open(replay))["replay"]
        d = R.trace_dir("C06-replay")
        with open(os.path.join(d, "rules00.ndjson"), "w") as f:
            ev = spec["event"]
            f.write(json.dumps(ev) + "\n")
        # re-run the engine on the logged placement
        vcommon.run_harness(h, ["rechk", "--in", os.path.join(d, "rules00.ndjson"), "--out", os.path.join(d, "rules01.ndjson")])
        os.remove(os.path.join(d, "rules00.ndjson"))
        res = vcommon.validate_shards("TraceRules", "TraceRules.cfg", [os.path.join(d, "rules01.ndjson")])
        R.judge(run, "C06", res)
        return run.finish()
    stride = 8 if tier == "quick" else 1
    d = R.trace_dir("C06-fam")
    summ = vcommon.run_harness(h, ["chk", "--out", d, "--shards", vcommon.NCPU, "--seed", vcommon.seed(), "--stride", stride,
                                   "--randoms", 3000 if tier == "quick" else 30000])
    files = sorted(glob.glob(os.path.join(d, "rules*.ndjson")))
    ev = json.loads(open(files[0]).readline())
    run.sample({"event": "chk", "family": ev["fam"], "placement": chessutil.s_to_fen(ev["pos"]), "engine_says": ev["chk"]})
    res = vcommon.validate_shards("TraceRules", "TraceRules.cfg", files)
    totals = R.judge(run, "C06", res)
    shutil.rmtree(d, ignore_errors=True)
    run.cov["families"] = summ
    run.cov["exhaustive"] = bool(summ.get("exhaustive"))
    # plus the check flags of ordinary game positions
    t2, _ = R.rules_trace(run, "C06", ["--playouts", 100 if tier == "quick" else 1000, "--plies", 40, "--family", 260 if tier == "quick" else 5000], "playout")
    R.need(t2, ["gen", "incheck"])
    R.need(totals, ["chk"])
    R.family_direction_a(run, "C06", ("check",), {"castle": 8, "ep": 80, "promo": 12} if tier == "quick" else {"castle": 1, "ep": 4, "promo": 1})
    run.cov["rule"] = ("families enumerated by the harness: (A) king on every square x enemy Q/R/B/N/P on every other square, both "
                       "colours; (B) the same with one blocker (own pawn, enemy pawn, enemy knight) on every square strictly between; "
                       "(C) both kings on every ordered pair of squares; (D) random placements with up to 24 extra men; (E) a king on every square with "
                       "all its neighbours its own men and an enemy knight on each knight square / a few enemy men elsewhere (always complete); quick = every "
                       "%d-th member (offset from the seed), thorough = all; is_check for both colours judged by Chess!InCheck" % stride)
    return run.finish()


def c13(tier, replay):
    run = mk("C13", tier, replay)
    if replay:
        R.replay_walk(run, "C13", replay)
        return run.finish()
    n = 160 if tier == "quick" else 1500
    totals, _ = R.rules_trace(run, "C13", ["--playouts", n, "--plies", 40, "--caps-prob", 0.6, "--caps-budget", 16], "capschains")
    R.need(totals, ["gen", "ep", "promo"])
    R.family_direction_a(run, "C13", ("caps",), {"castle": 8, "ep": 40, "ep2": 60, "promo": 6} if tier == "quick" else {"castle": 1, "ep": 2, "ep2": 3, "promo": 1},
                         fams=("castle", "ep", "ep2", "promo"))
    model_game(run, tier)
    run.cov["rule"] = RULE_TEXT % n_seeds() + ("; at 60% of the visited positions a depth-first walk over capture-only generations (depth <= 6, "
                                               "<= 3 branches per node, as quiescence follows them) is logged; per event: descriptor set = Chess!LegalCaptures, "
                                               "successors = Chess!Apply, chain consistency")
    return run.finish()


def c14(tier, replay):
    run = mk("C14", tier, replay)
    h = vcommon.build_harness()
    d = R.trace_dir("C14")
    if replay:
        spec = json.load(open(replay))["replay"]
        with open(os.path.join(d, "in.ndjson"), "w") as f:
            f.write(json.dumps(spec["event"]) + "\n")
        vcommon.run_harness(h, ["reeval", "--in", os.path.join(d, "in.ndjson"), "--out", os.path.join(d, "rules00.ndjson")])
        os.remove(os.path.join(d, "in.ndjson"))
    else:
        summ = vcommon.run_harness(h, ["eval", "--out", d, "--shards", vcommon.NCPU, "--seed", vcommon.seed(),
                                       "--randoms", 6000 if tier == "quick" else 150000])
        run.cov["families"] = summ
    files = sorted(glob.glob(os.path.join(d, "rules*.ndjson")))
    ev = json.loads(open(files[0]).readline())
    run.sample({"event": "eval", "placement": chessutil.s_to_fen(ev["p"]), "e": ev["e"], "e_mirror": ev["e_m"], "e_swapped": ev["e_swap"]})
    res = vcommon.validate_shards("TraceRules", "TraceRules.cfg", files)
    totals = R.judge(run, "C14", res)
    shutil.rmtree(d, ignore_errors=True)
    if not replay:
        R.need(totals, ["eval"])
    run.cov["rule"] = ("pairs of a pawn with any other man (neighbouring squares exhaustive, elsewhere sampled), boards reached by the generator / text applier against a fresh object, "
                       "single-piece basis (12 pieces x 64 squares x phase ballast 0/12/24 x both sides to move, exhaustive), maximal material "
                       "(K+9Q+2R+2B+2N) against a lone king and against the same, random placements with up to 32 men (legal or not); TLC checks "
                       "the harness's mirror against Chess!Mirror, e(mirror) = e, e(other side) = -e, insensitivity to rights / ep / descriptor / "
                       "key / king cache, |e| < 50000 for material within the stated bound")
    run.assumptions.append("the specification supplies Mirror/SwapSide and the relational contract, not the evaluation tables")
    return run.finish()


def c15(tier, replay):
    run = mk("C15", tier, replay)
    h = vcommon.build_harness()
    d = R.trace_dir("C15")
    if replay:
        spec = json.load(open(replay))["replay"]
        with open(os.path.join(d, "in.ndjson"), "w") as f:
            f.write(json.dumps(spec["event"]) + "\n")
        if spec["event"]["ev"] == "cli":
            cli_events(vcommon.build_binary(False), [spec["event"]], os.path.join(d, "rules00.ndjson"))
        else:
            vcommon.run_harness(h, ["refen", "--in", os.path.join(d, "in.ndjson"), "--out", os.path.join(d, "rules00.ndjson")])
        os.remove(os.path.join(d, "in.ndjson"))
    else:
        quick = tier == "quick"
        summ = vcommon.run_harness(h, ["fen", "--out", d, "--shards", vcommon.NCPU - 1, "--seed", vcommon.seed(),
                                       "--playouts", 60 if quick else 600, "--plies", 30, "--fuzz", 4 if quick else 6,
                                       "--random-strings", 2000 if quick else 50000])
        run.cov["inputs"] = summ
        inputs = json.load(open(os.path.join(d, "cli_inputs.json")))
        # long rejected inputs with multi-byte characters at every alignment (an error message that quotes or shortens the
        # input must not cut a character in half), also behind a FEN-like prefix
        for ch in ("\u00e9", "\u20ac", "\U0001d11e", "\u2013"):
            for pad in range(4):
                inputs.append({"kind": "fuzz", "input": "a" * pad + ch * 45})
                inputs.append({"kind": "fuzz", "input": "rnbqkbnr/pppppppp/8/8/8/8/PPPPPPPP/RNBQKBNR w KQkq " + "x" * pad + ch * 12 + " 0 1"})
        n = cli_events(vcommon.build_binary(False), inputs, os.path.join(d, "rules%02d.ndjson" % (vcommon.NCPU - 1)))
        run.cov["cli_runs"] = n
    files = sorted(glob.glob(os.path.join(d, "rules*.ndjson")))
    ev = json.loads(open(files[0]).readline())
    run.sample({"event": ev["ev"], "kind": ev.get("kind"), "input": ev.get("input", "")[:120], "outcome": ev.get("outcome", ev.get("exit"))})
    res = vcommon.validate_shards("TraceRules", "TraceRules.cfg", files)
    totals = R.judge(run, "C15", res)
    shutil.rmtree(d, ignore_errors=True)
    if not replay:
        R.need(totals, ["fen", "cli"])
    run.cov["rule"] = ("spec FENs: positions of engine playouts rendered with counters from {0,1,49,50,99,100,255,256,300,5949,65535,10^6}; TLC checks "
                       "the string equals Chess!ToFen of the position and the loaded state equals the position; totality: field-wise and character-level "
                       "mutations (ep and counter fields from fixed nasty lists, rows with 7/9 squares, very long input, non-ASCII) and random strings: "
                       "outcome must be ok or err; the real binary `walleye --fen <s> -T -d 1` must exit 0")
    run.assumptions.append("'all strings' is sampled, not proved")
    return run.finish()


def cli_events(binary, inputs, out_path):
    n = 0
    with open(out_path, "w") as f:
        for item in inputs:
            s = item["input"]
            if "\x00" in s:
                continue
            try:
                # (--fen=<value>: a mutated string may start with '-', which the argument parser would otherwise read as a flag)
                p = subprocess.run([binary, "--fen=" + s, "-T", "-d", "1"], stdout=subprocess.PIPE, stderr=subprocess.PIPE, timeout=20)
                code, out = p.returncode, p.stdout.decode("utf-8", "replace")
            except subprocess.TimeoutExpired:
                code, out = -9, ""
            first = out.splitlines()[0] if out.splitlines() else ""
            f.write(json.dumps({"ev": "cli", "kind": item["kind"], "input": s, "exit": code, "searched": first.startswith("Searched"),
                                "line": first[:200]}) + "\n")
            n += 1
    return n


CHECKS = {"C01": c01, "C02": c02, "C04": c04, "C05": c05, "C06": c06, "C13": c13, "C14": c14, "C15": c15,
          "C07": S.c07, "C10": S.c10, "C11": S.c11, "C12": S.c12, "C18": S.c18,
          "C03": UC.c03, "C08": UC.c08, "C09": UC.c09, "C16": UC.c16, "C17": UC.c17}


def setup():
    """Build everything once and run the specification's self-checks."""
    import selfcheck
    vcommon.build_harness()
    vcommon.build_binary(False)
    vcommon.build_binary(True)
    return selfcheck.run(quick=True)


def selftest():
    import selfcheck
    return selfcheck.run(quick=False)
