"""Registry of checks: property id -> function(tier, replay_path) -> exit code."""
import json
import os

import checks_rules as R
import vcommon
from vcommon import Run, ToolError, log


def c01(tier, replay):
    run = Run("C01", tier, "model_checking", replay=bool(replay))
    if replay:
        R.replay_walk(run, "C01", replay)
        return run.finish()
    n = 320 if tier == "quick" else 4000
    totals, _ = R.rules_trace(run, "C01", ["--playouts", n, "--plies", 40], "playout")
    R.need(totals, ["gen", "castle", "ep", "promo", "incheck"])
    run.cov["rule"] = ("engine-driven random playouts (biased towards castling, en passant, promotion, double steps, corner "
                       "rook moves) from %d seed FENs; every visited position is one gen event whose descriptor set is "
                       "compared with Chess!Legal by TLC" % len(open(os.path.join(vcommon.VERIF, "harness", "seeds.txt")).read().split("\n")))
    return run.finish()


CHECKS = {"C01": c01}


def setup():
    vcommon.build_harness()
    return 0


def selftest():
    return 0
