"""Coverage of the system beyond the listed properties (not registered in MANIFEST.json; `./check selfplay`).

selfplay: the `-P -S` front end (play_game_against_self) runs whole games against itself; the sequence of printed boards
is validated against TraceSelfPlay.tla (every step a legal move of Chess.tla, a repeated board only when the game is
over).  One game takes 100 s of wall clock (100 rounds of one second, hard-coded in main.rs); the games run in parallel."""
import glob
import json
import os
import random
import shutil
import subprocess
import time
from concurrent.futures import ThreadPoolExecutor

import chessutil
import checks_rules as R
import vcommon
from vcommon import ToolError, log

START = "rnbqkbnr/pppppppp/8/8/8/8/PPPPPPPP/RNBQKBNR w KQkq - 0 1"


def parse_boards(text):
    """printed boards -> list of placement fields (FEN style)"""
    lines = text.splitlines()
    boards = []
    i = 0
    while i < len(lines):
        if lines[i].strip() == "a b c d e f g h" and i + 8 < len(lines):
            rows = []
            ok = True
            for k in range(1, 9):
                cells = lines[i + k].split()
                if len(cells) != 9 or cells[8] != str(9 - k):
                    ok = False
                    break
                rows.append(cells[:8])
            if ok:
                fen_rows = []
                for cells in rows:
                    s, gap = "", 0
                    for c in cells:
                        if c == ".":
                            gap += 1
                        else:
                            s += (str(gap) if gap else "") + c
                            gap = 0
                    fen_rows.append(s + (str(gap) if gap else ""))
                boards.append("/".join(fen_rows))
                i += 9
                continue
        i += 1
    return boards


def selfplay(tier, replay=None):
    binary = vcommon.build_binary(False)
    rng = random.Random(vcommon.seed() * 31 + 77)
    seeds = [l.strip() for l in open(os.path.join(vcommon.VERIF, "harness", "seeds.txt")) if l.strip()]
    fens = [START, "8/8/8/8/8/6R1/8/k1K5 w - - 0 1", "4k3/P7/8/8/8/8/7p/4K3 w - - 0 1", "r3k2r/8/8/8/8/8/8/R3K2R w KQkq - 0 1"]
    fens += rng.sample(seeds, 4 if tier == "quick" else 28)
    if replay:
        fens = [json.load(open(replay))["fen"]]
    d = R.trace_dir("selfplay")
    cwd = os.path.join(vcommon.BUILD, "run-cwd")
    os.makedirs(cwd, exist_ok=True)

    def one(i_fen):
        i, fen = i_fen
        try:
            p = subprocess.run([binary, "-P", "-S", "--fen=" + fen], cwd=cwd, stdout=subprocess.PIPE, stderr=subprocess.DEVNULL, text=True, timeout=180)
        except subprocess.TimeoutExpired:
            return i, fen, None
        return i, fen, p.stdout

    t0 = time.time()
    with ThreadPoolExecutor(max_workers=16) as ex:
        outs = list(ex.map(one, list(enumerate(fens))))
    files = []
    for i, fen, out in outs:
        if out is None:
            raise ToolError("self-play did not end within 180 s: " + fen)
        boards = parse_boards(out)
        if len(boards) < 2:
            raise ToolError("no boards printed for " + fen)
        s = chessutil.fen_to_s(fen)
        path = os.path.join(d, "self%02d.ndjson" % i)
        with open(path, "w") as f:
            f.write(json.dumps({"ev": "start", "fen": fen, "start": {k: s[k] for k in ("r", "stm", "cr", "ep")}}) + "\n")
            for k, b in enumerate(boards):
                f.write(json.dumps({"ev": "board", "first": k == 0, "r": chessutil.fen_to_s(b + " w - - 0 1")["r"]}) + "\n")
        files.append(path)
    results = vcommon.validate_shards("TraceSelfPlay", "TraceSelfPlay.cfg", files)
    tot, bad = {}, []
    for r in results:
        for k, n in r["verdict"]["cnt"].items():
            tot[k] = tot.get(k, 0) + n
        for prop, line, code, detail in r["verdict"]["bad"]:
            if prop == "TOOL":
                raise ToolError("%s %s" % (code, detail))
            fen = json.loads(open(r["file"]).readline())["fen"]
            bad.append({"fen": fen, "line": line, "code": code, "detail": detail})
    shutil.rmtree(d, ignore_errors=True)
    ev = {"what": "self-play front end (-P -S): printed boards validated against TraceSelfPlay.tla", "tier": tier, "games": len(fens),
          "counts": tot, "violations": bad, "wall_s": round(time.time() - t0, 1)}
    os.makedirs(os.path.join(vcommon.VERIF, "extras"), exist_ok=True)
    if not replay and not os.environ.get("VERIF_NO_EVIDENCE"):
        json.dump(ev, open(os.path.join(vcommon.VERIF, "extras", "selfplay.json"), "w"), indent=1)
    for b in bad[:10]:
        rp = os.path.join(vcommon.VERIF, "replays", "selfplay-%08x.json" % (hash(b["fen"]) & 0xffffffff))
        os.makedirs(os.path.dirname(rp), exist_ok=True)
        json.dump({"fen": b["fen"], "what": b}, open(rp, "w"))
        print("EXTRA-VIOLATION selfplay %s replay=%s" % (b["code"], rp))
        log("  %s: %s" % (b["code"], b["detail"][:300]))
    log("selfplay %s: %d game(s), %s, %d violation(s), wall %.0fs" % (tier, len(fens), tot, len(bad), time.time() - t0))
    if tot.get("moves", 0) < 20:
        raise ToolError("coverage hole: fewer than 20 moves observed in self-play")
    return 1 if bad else 0
