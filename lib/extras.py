"""Coverage of the system beyond the listed properties (not registered in MANIFEST.json; `./check selfplay`).

selfplay: the `-P -S` front end (play_game_against_self) runs whole games against itself; the sequence of printed boards
is validated against TraceSelfPlay.tla (every step a legal move of Chess.tla, a repeated board only when the game is
over).  One game takes 100 s of wall clock (100 rounds of one second, hard-coded in main.rs); the games run in parallel."""
import glob
import json
import os
import random
import shutil
import subprocess
import time
from concurrent.futures import ThreadPoolExecutor

import chessutil
import checks_rules as R
import vcommon
from vcommon import ToolError, log

START = "rnbqkbnr/pppppppp/8/8/8/8/PPPPPPPP/RNBQKBNR w KQkq - 0 1"


def parse_boards(text):
    """printed boards -> list of placement fields (FEN style)"""
    lines = text.splitlines()
    boards = []
    i = 0
    while i < len(lines):
        if lines[i].strip() == "a b c d e f g h" and i + 8 < len(lines):
            rows = []
            ok = True
            for k in range(1, 9):
                cells = lines[i + k].split()
                if len(cells) != 9 or cells[8] != str(9 - k):
                    ok = False
                    break
                rows.append(cells[:8])
            if ok:
                fen_rows = []
                for cells in rows:
                    s, gap = "", 0
                    for c in cells:
                        if c == ".":
                            gap += 1
                        else:
                            s += (str(gap) if gap else "") + c
                            gap = 0
                    fen_rows.append(s + (str(gap) if gap else ""))
                boards.append("/".join(fen_rows))
                i += 9
                continue
        i += 1
    return boards


def selfplay(tier, replay=None):
    binary = vcommon.build_binary(False)
    rng = random.Random(vcommon.seed() * 31 + 77)
    seeds = [l.strip() for l in open(os.path.join(vcommon.VERIF, "harness", "seeds.txt")) if l.strip()]
    fens = [START, "8/8/8/8/8/6R1/8/k1K5 w - - 0 1", "4k3/P7/8/8/8/8/7p/4K3 w - - 0 1", "r3k2r/8/8/8/8/8/8/R3K2R w KQkq - 0 1"]
    fens += rng.sample(seeds, 4 if tier == "quick" else 28)
    if replay:
        fens = [json.load(open(replay))["fen"]]
    d = R.trace_dir("selfplay")
    cwd = os.path.join(vcommon.BUILD, "run-cwd")
    os.makedirs(cwd, exist_ok=True)

    def one(i_fen):
        i, fen = i_fen
        try:
            p = subprocess.run([binary, "-P", "-S", "--fen=" + fen], cwd=cwd, stdout=subprocess.PIPE, stderr=subprocess.DEVNULL, text=True, timeout=180)
        except subprocess.TimeoutExpired:
            return i, fen, None
        return i, fen, p.stdout

    t0 = time.time()
    with ThreadPoolExecutor(max_workers=16) as ex:
        outs = list(ex.map(one, list(enumerate(fens))))
    files = []
    for i, fen, out in outs:
        if out is None:
            raise ToolError("self-play did not end within 180 s: " + fen)
        boards = parse_boards(out)
        if len(boards) < 2:
            raise ToolError("no boards printed for " + fen)
        s = chessutil.fen_to_s(fen)
        path = os.path.join(d, "self%02d.ndjson" % i)
        with open(path, "w") as f:
            f.write(json.dumps({"ev": "start", "fen": fen, "start": {k: s[k] for k in ("r", "stm", "cr", "ep")}}) + "\n")
            for k, b in enumerate(boards):
                f.write(json.dumps({"ev": "board", "first": k == 0, "r": chessutil.fen_to_s(b + " w - - 0 1")["r"]}) + "\n")
        files.append(path)
    results = vcommon.validate_shards("TraceSelfPlay", "TraceSelfPlay.cfg", files)
    tot, bad = {}, []
    for r in results:
        for k, n in r["verdict"]["cnt"].items():
            tot[k] = tot.get(k, 0) + n
        for prop, line, code, detail in r["verdict"]["bad"]:
            if prop == "TOOL":
                raise ToolError("%s %s" % (code, detail))
            fen = json.loads(open(r["file"]).readline())["fen"]
            bad.append({"fen": fen, "line": line, "code": code, "detail": detail})
    shutil.rmtree(d, ignore_errors=True)
    ev = {"what": "self-play front end (-P -S): printed boards validated against TraceSelfPlay.tla", "tier": tier, "games": len(fens),
          "counts": tot, "violations": bad, "wall_s": round(time.time() - t0, 1)}
    os.makedirs(os.path.join(vcommon.VERIF, "extras"), exist_ok=True)
    if not replay and not os.environ.get("VERIF_NO_EVIDENCE"):
        json.dump(ev, open(os.path.join(vcommon.VERIF, "extras", "selfplay.json"), "w"), indent=1)
    for b in bad[:10]:
        rp = os.path.join(vcommon.VERIF, "replays", "selfplay-%08x.json" % (hash(b["fen"]) & 0xffffffff))
        os.makedirs(os.path.dirname(rp), exist_ok=True)
        json.dump({"fen": b["fen"], "what": b}, open(rp, "w"))
        print("EXTRA-VIOLATION selfplay %s replay=%s" % (b["code"], rp))
        log("  %s: %s" % (b["code"], b["detail"][:300]))
    log("selfplay %s: %d game(s), %s, %d violation(s), wall %.0fs" % (tier, len(fens), tot, len(bad), time.time() - t0))
    if tot.get("moves", 0) < 20:
        raise ToolError("coverage hole: fewer than 20 moves observed in self-play")
    return 1 if bad else 0


def bench(tier, replay=None):
    """The `-T -d D --fen X` front end (generate_moves_test: the node count it prints is perft(1) + ... + perft(D)) against
    Perft.tla: direction spec -> code through the real binary's command line, on positions the suite's perft tests do not use."""
    import re
    import selfcheck
    binary = vcommon.build_binary(False)
    rng = random.Random(vcommon.seed() * 131 + 5)
    seeds = [l.strip() for l in open(os.path.join(vcommon.VERIF, "harness", "seeds.txt")) if l.strip()]
    fens = ["r3k2r/8/8/8/8/8/8/R3K2R w KQkq - 0 1", "4k3/P6p/8/8/8/8/p6P/4K3 b - - 0 1", "8/8/8/2PpP3/8/8/8/2K1k3 w - d6 0 2",
            "r3k2r/1P4P1/8/8/8/8/1p4p1/R3K2R w KQkq - 0 1", "8/8/8/8/8/6R1/8/k1K5 b - - 0 1", "2r1k3/8/8/2PpP3/8/8/8/2K5 w - d6 0 1"]
    fens += rng.sample(seeds, 10 if tier == "quick" else 40)
    if replay:
        fens = [json.load(open(replay))["fen"]]
    depth = 2 if tier == "quick" else 3
    d = os.path.join(vcommon.BUILD, "bench-%d" % os.getpid())
    os.makedirs(d, exist_ok=True)
    jobs = []
    for i, fen in enumerate(fens):
        s = chessutil.fen_to_s(fen)
        for dd in range(1, depth + 1):
            path = os.path.join(d, "b%d-%d.json" % (i, dd))
            json.dump({"name": "b%d" % i, "fen": fen, "pos": {k: s[k] for k in ("r", "stm", "cr", "ep")}, "half": s["half"], "full": s["full"],
                       "depth": dd, "shard": 0, "of": 1}, open(path, "w"))
            jobs.append((i, dd, path))

    def one(j):
        r = vcommon.tlc("Perft", "Perft.cfg", env={"PERFT": j[2]}, workers=1, xmx="2g", timeout=3000)
        pr = vcommon.tlc_prints(r["out"], "PERFT")
        if not pr:
            if "Assumption line 27" in r["out"]:
                return j[0], j[1], None     # outside the precondition (WellFormed): not used
            raise ToolError("perft run failed: " + r["out"][-1500:])
        return j[0], j[1], pr[0][4]

    t0 = time.time()
    with ThreadPoolExecutor(max_workers=vcommon.NCPU) as ex:
        res = list(ex.map(one, jobs))
    want = {}
    for i, dd, v in res:
        want.setdefault(i, {})[dd] = v
    bad = []
    cwd = os.path.join(vcommon.BUILD, "run-cwd")
    os.makedirs(cwd, exist_ok=True)
    skipped = [i for i in want if any(v is None for v in want[i].values())]
    for i, fen in enumerate(fens):
        if i in skipped:
            continue
        for dd in range(1, depth + 1):
            p = subprocess.run([binary, "-T", "-d", str(dd), "--fen=" + fen], cwd=cwd, stdout=subprocess.PIPE, stderr=subprocess.DEVNULL, text=True, timeout=300)
            m = re.search(r"Searched to a depth of (\d+) and evaluated (\d+) nodes", p.stdout)
            exp = sum(want[i][k] for k in range(1, dd + 1))
            if p.returncode != 0 or not m or int(m.group(1)) != dd or int(m.group(2)) != exp:
                bad.append({"fen": fen, "depth": dd, "expected_nodes": exp, "printed": p.stdout.strip()[-200:], "rc": p.returncode})
    # the argument checks of the front end
    for args, text in ((["-T", "-d", "100"], "Can not have depth greater than"), (["-T", "-d", "x"], "Invalid depth provided"), (["-T", "--fen=bad"], "")):
        p = subprocess.run([binary] + args, cwd=cwd, stdout=subprocess.PIPE, stderr=subprocess.DEVNULL, text=True, timeout=60)
        if p.returncode != 0 or text not in p.stdout or "Searched" in p.stdout:
            bad.append({"args": args, "printed": p.stdout.strip()[-200:], "rc": p.returncode})
    shutil.rmtree(d, ignore_errors=True)
    ev = {"what": "test-bench front end (-T -d D --fen X): printed node counts against Perft.tla (sum of perft(1..D))", "tier": tier, "positions": len(fens) - len(skipped),
          "depth": depth, "violations": bad, "wall_s": round(time.time() - t0, 1)}
    if not replay and not os.environ.get("VERIF_NO_EVIDENCE"):
        json.dump(ev, open(os.path.join(vcommon.VERIF, "extras", "bench.json"), "w"), indent=1)
    for b in bad[:10]:
        rp = os.path.join(vcommon.VERIF, "replays", "bench-%08x.json" % (hash(json.dumps(b, sort_keys=True)) & 0xffffffff))
        os.makedirs(os.path.dirname(rp), exist_ok=True)
        json.dump({"fen": b.get("fen"), "what": b}, open(rp, "w"))
        print("EXTRA-VIOLATION bench replay=%s %s" % (rp, json.dumps(b)[:300]))
    log("bench %s: %d position(s) to depth %d, %d violation(s), wall %.0fs" % (tier, len(fens), depth, len(bad), time.time() - t0))
    return 1 if bad else 0
