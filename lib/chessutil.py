"""Small helpers on the shared position encoding (python side: only formatting, never judging)."""
PCS = ".PNBRQKpnbrqk"


def s_board(S):
    b = {}
    for rank in range(1, 9):
        x = S["r"][rank - 1]
        for f in range(1, 9):
            b[(f, rank)] = x % 13
            x //= 13
    return b


def sq_name(s):
    if not s:
        return "-"
    return "abcdefgh"[(s - 1) % 8] + str((s - 1) // 8 + 1)


def s_to_fen(S, half=0, full=1):
    b = s_board(S)
    rows = []
    for rank in range(8, 0, -1):
        row, run = "", 0
        for f in range(1, 9):
            c = b[(f, rank)]
            if c == 0:
                run += 1
            else:
                if run:
                    row += str(run)
                    run = 0
                row += PCS[c]
        if run:
            row += str(run)
        rows.append(row)
    cr = "".join(ch for bit, ch in ((1, "K"), (2, "Q"), (4, "k"), (8, "q")) if S["cr"] & bit) or "-"
    return "%s %s %s %s %d %d" % ("/".join(rows), "wb"[S["stm"]], cr, sq_name(S["ep"]), half, full)


def fen_to_s(fen):
    """FEN -> encoded record (used to hand standard positions to TLC; TLC re-checks it with ToFen)."""
    parts = fen.split()
    rows = parts[0].split("/")
    r = []
    for rank in range(1, 9):
        row = rows[8 - rank]
        v, mul = 0, 1
        for ch in row:
            if ch.isdigit():
                mul *= 13 ** int(ch)
            else:
                v += mul * PCS.index(ch)
                mul *= 13
        r.append(v)
    cr = sum(bit for bit, ch in ((1, "K"), (2, "Q"), (4, "k"), (8, "q")) if ch in parts[2])
    ep = 0
    if parts[3] != "-":
        ep = 8 * (int(parts[3][1]) - 1) + "abcdefgh".index(parts[3][0]) + 1
    return {"r": r, "stm": 0 if parts[1] == "w" else 1, "cr": cr, "ep": ep,
            "half": int(parts[4]) if len(parts) > 4 else 0, "full": int(parts[5]) if len(parts) > 5 else 1}


def move_name(m):
    return sq_name(m[0]) + sq_name(m[1]) + ("", "p", "n", "b", "r", "q", "k")[m[2] if m[2] <= 6 else m[2] - 6]
