"""Black-box driver of the real walleye binary over pipes, with timestamps.

A session is a list of steps; each step is (kind, text, options).  The driver writes lines, reads stdout on a
thread, and records ndjson events (in / out / timeout / eofin / exit) for TraceUci.tla.  It only formats and
timestamps: every verdict is the specification's."""
import json
import os
import queue
import re
import resource
import subprocess
import threading
import time

import chessutil

MOVE_RE = re.compile(r"^[a-h][1-8][a-h][1-8][qrbn]?$")


def parse_info(line):
    toks = line.split(" ")
    bad = {"ok": False, "raw": line}
    n = len(toks)
    if n < 11 or toks[0] != "info" or toks[1] != "pv":
        return bad
    if toks[n - 9] != "depth" or toks[n - 7] != "nodes" or toks[n - 5] != "score" or toks[n - 2] != "time":
        return bad
    pv = toks[2:n - 9]
    if not pv or not all(MOVE_RE.match(m) for m in pv):
        return bad
    try:
        vals = [toks[n - 8], toks[n - 6], toks[n - 3], toks[n - 1]]
        if not all(re.match(r"^-?\d+$", v) for v in vals):
            return bad
        d, nd, v, tm = [int(x) for x in vals]
    except ValueError:
        return bad
    kind = toks[n - 4]
    if kind not in ("cp", "mate") or d < 0 or nd < 0 or tm < 0 or abs(v) > 2000000000 or nd > 2000000000:
        return bad
    return {"ok": True, "depth": d, "nodes": nd, "kind": kind, "val": v, "pv": pv, "raw": line, "q": 0, "time": tm}


def classify_out(line):
    if line.startswith("info"):
        return {"k": "info", "info": parse_info(line)}
    if line.startswith("bestmove"):
        # UCI: bestmove <move> [ponder <move>]
        toks = line.split(" ")
        shape = len(toks) == 2 or (len(toks) == 4 and toks[2] == "ponder" and bool(MOVE_RE.match(toks[3])))
        mv = toks[1] if shape else "?"
        return {"k": "bestmove", "move": mv, "wellformed": shape and (bool(MOVE_RE.match(mv)) or mv in ("0000", "(none)"))}
    if line == "readyok":
        return {"k": "readyok"}
    if line == "uciok":
        return {"k": "uciok"}
    if line.startswith("id ") or line.startswith("option "):
        return {"k": "id"}
    return {"k": "other"}


def position_payload(cmd):
    """Structured form of a well-formed position command for the trace spec (start record + move texts)."""
    toks = cmd.split()
    if len(toks) >= 2 and toks[1] == "startpos":
        fen = "rnbqkbnr/pppppppp/8/8/8/8/PPPPPPPP/RNBQKBNR w KQkq - 0 1"
        rest = toks[2:]
    elif len(toks) >= 8 and toks[1] == "fen":
        fen = " ".join(toks[2:8])
        rest = toks[8:]
    else:
        return None
    texts = rest[1:] if rest and rest[0] == "moves" else []
    s = chessutil.fen_to_s(fen)
    return {"fen": fen, "start": {k: s[k] for k in ("r", "stm", "cr", "ep")}, "half": s["half"], "full": s["full"], "texts": texts}


def default_cwd():
    # the engine may write walleye_<pid>.log into its working directory: keep that inside /verif/build
    d = os.path.join(os.path.dirname(os.path.dirname(os.path.abspath(__file__))), "build", "run-cwd")
    os.makedirs(d, exist_ok=True)
    return d


try:
    import ctypes
    _LIBC = ctypes.CDLL("libc.so.6")
except Exception:       # pragma: no cover
    _LIBC = None


def _die_with_parent():
    # runs in the forked child just before exec: the engine must not outlive the driver (a killed check would otherwise
    # leave spinning engines behind).  Only an already loaded C function is called here (no imports after fork).
    if _LIBC is not None:
        _LIBC.prctl(1, 9)       # PR_SET_PDEATHSIG, SIGKILL


class Session:
    def __init__(self, binary, trace_path=None, cwd=None, prefix=None):
        env = dict(os.environ)
        if trace_path:
            env["WALLEYE_VERIF_TRACE"] = trace_path
        self.t0 = time.monotonic()
        self.p = subprocess.Popen((prefix or []) + [binary], stdin=subprocess.PIPE, stdout=subprocess.PIPE, stderr=subprocess.PIPE, env=env,
                                  cwd=cwd or default_cwd(), bufsize=0, preexec_fn=_die_with_parent)
        self.q = queue.Queue()
        self.events = [{"ev": "reset"}]
        self.stderr = []
        self.alive = True
        self.stop_reader = False
        self.reader = threading.Thread(target=self._reader, daemon=True)
        self.reader.start()
        threading.Thread(target=self._err_reader, daemon=True).start()

    def now(self):
        return int((time.monotonic() - self.t0) * 1000)

    def _reader(self):
        # chunked reads (a byte-wise readline would fall behind when the engine prints hundreds of info lines and
        # stamp the lines late); every line of a chunk gets the arrival time of that chunk
        import select
        fd = self.p.stdout.fileno()
        buf = b""
        while True:
            # poll with a short timeout so that the reader is never parked inside read() when the driver wants to close
            # its end of the pipe (a blocked read would keep the pipe alive until the next line arrives)
            if self.stop_reader:
                break
            try:
                ready, _, _ = select.select([fd], [], [], 0.02)
            except (OSError, ValueError):
                break
            if not ready:
                continue
            try:
                chunk = os.read(fd, 65536)
            except OSError:
                chunk = b""
            if not chunk:
                break
            t = self.now()
            buf += chunk
            while b"\n" in buf:
                raw, buf = buf.split(b"\n", 1)
                self.q.put((t, raw.decode("utf-8", "replace").rstrip("\r")))
        if buf:
            self.q.put((self.now(), buf.decode("utf-8", "replace")))
        self.q.put((self.now(), None))

    def _err_reader(self):
        for l in self.p.stderr:
            self.stderr.append(l.decode("utf-8", "replace").rstrip())

    def send(self, line, extra=None):
        ev = {"ev": "in", "t": self.now(), "line": line}
        if extra:
            ev.update(extra)
        # any line whose first word is `isready` is an isready command (the engine dispatches on the first word), also when a
        # session sends it as "garbage" without waiting for the answer: its readyok is then expected, not unsolicited
        if line.split()[:1] == ["isready"] and not (extra or {}).get("go"):
            ev["isready"] = True
        self.events.append(ev)
        try:
            self.p.stdin.write((line + "\n").encode("utf-8"))
            self.p.stdin.flush()
        except (BrokenPipeError, OSError):
            self.events.append({"ev": "pipe", "t": self.now()})
            self.alive = False
        return ev

    def _record(self, t, line):
        ev = {"ev": "out", "t": t, "line": line}
        ev.update(classify_out(line))
        self.events.append(ev)
        return ev

    def wait_for(self, kind, timeout_ms):
        """Read lines until one of the given kind arrives; returns it or None (timeout / process gone)."""
        deadline = time.monotonic() + timeout_ms / 1000.0
        while True:
            rem = deadline - time.monotonic()
            if rem <= 0:
                self.events.append({"ev": "timeout", "t": self.now(), "waiting": kind})
                return None
            try:
                t, line = self.q.get(timeout=rem)
            except queue.Empty:
                continue
            if line is None:
                self.alive = False
                self.events.append({"ev": "closed", "t": t, "waiting": kind})
                return None
            ev = self._record(t, line)
            if ev["k"] == kind:
                return ev

    def drain(self, ms):
        """Collect whatever arrives within ms (late info lines of the search thread).  On a machine that is heavily
        loaded a thread that was pre-empted between handing over its board and printing the line may not run again for
        tens of milliseconds: the wait then grows with the load (the line is genuine output of the EARLIER search; the
        longer it is waited for here, the less often the trace specification has to recognise it by its content)."""
        try:
            load = os.getloadavg()[0] / max(os.cpu_count() or 1, 1)
        except OSError:
            load = 0.0
        if ms <= 50 and load > 1.5:
            ms = min(ms * (1 + int(load)), 150)
        end = time.monotonic() + ms / 1000.0
        while True:
            rem = end - time.monotonic()
            if rem <= 0:
                return
            try:
                t, line = self.q.get(timeout=rem)
            except queue.Empty:
                return
            if line is None:
                self.alive = False
                self.q.put((t, None))
                return
            self._record(t, line)

    def send_raw(self, data, extra=None):
        """Write bytes without a line terminator (end of input in the middle of a line)."""
        ev = {"ev": "in", "t": self.now(), "line": data}
        if extra:
            ev.update(extra)
        self.events.append(ev)
        try:
            self.p.stdin.write(data.encode("utf-8"))
            self.p.stdin.flush()
        except (BrokenPipeError, OSError):
            self.alive = False
        return ev

    def gui_gone(self):
        """The GUI disappears: the engine's standard input ends AND nobody reads its output any more."""
        self.events.append({"ev": "eofin", "t": self.now(), "stdout_closed": True})
        self.stop_reader = True
        self.reader.join(1.0)
        for f in (self.p.stdin, self.p.stdout):
            try:
                f.close()
            except OSError:
                pass

    def close_stdin(self):
        self.events.append({"ev": "eofin", "t": self.now()})
        try:
            self.p.stdin.close()
        except OSError:
            pass

    def finish(self, after, timeout_ms):
        """Wait for the process to end; kill it when it does not."""
        t_req = self.now()
        try:
            code = self.p.wait(timeout=timeout_ms / 1000.0)
            killed = False
        except subprocess.TimeoutExpired:
            # still there: measure whether it is burning cpu, then kill
            killed = True
            self.p.kill()
            code = self.p.wait()
        t_end = self.now()
        # flush remaining output lines into the trace
        while True:
            try:
                t, line = self.q.get_nowait()
            except queue.Empty:
                break
            if line is not None:
                self._record(t, line)
        panicked = any("panicked" in l for l in self.stderr)
        self.events.append({"ev": "exit", "t": t_end, "after": after, "waited": t_end - t_req, "code": code, "killed": killed,
                            "stderr_panic": panicked})
        self.alive = False


def handshake(s, timeout_ms=3000):
    s.send("uci")
    return s.wait_for("uciok", timeout_ms) is not None


def run_script(binary, steps, trace_path=None, drain_ms=20, prefix=None, cwd=None):
    """steps: list of dicts: {"do": "send", "line": ..., "extra": {...}} | {"do": "go", "line":..., "extra":{...}, "wait_ms":...}
    | {"do": "isready"} | {"do": "eof"} | {"do": "quit"}.  Returns the event list."""
    s = Session(binary, trace_path, cwd=cwd, prefix=prefix)
    if not handshake(s):
        s.finish("handshake", 1000)
        return s.events
    ended = False
    for st in steps:
        if not s.alive:
            break
        do = st["do"]
        if do == "send":
            extra = dict(st.get("extra") or {})
            if st["line"].split()[:1] == ["position"]:
                pl = position_payload(st["line"])
                if pl:
                    extra["position"] = pl
            if st["line"].split()[:1] == ["ucinewgame"]:
                extra["newgame"] = True
            s.send(st["line"], extra)
            if st.get("pause_ms"):
                s.drain(st["pause_ms"])
        elif do == "go":
            s.send(st["line"], dict(st.get("extra") or {}, go=True))
            ev = s.wait_for("bestmove", st.get("wait_ms", 5000))
            if ev is not None:
                s.drain(drain_ms)
        elif do == "isready":
            s.send(st.get("line", "isready"), {"isready": True})
            s.wait_for("readyok", st.get("wait_ms", 3000))
        elif do == "raw_isready_eof":
            # `isready` without a line terminator, then end of input: the command is still a command
            s.send_raw("isready", {"isready": True})
            s.close_stdin()
            s.wait_for("readyok", st.get("wait_ms", 1500))
            s.finish("eof", st.get("wait_ms", 2500))
            ended = True
            break
        elif do == "gone":
            if st.get("pause_ms"):
                s.drain(st["pause_ms"])
            s.gui_gone()
            s.finish("eof", st.get("wait_ms", 4000))
            ended = True
            break
        elif do == "close_stdout":
            # the GUI stops reading (its end of the output pipe is closed) but keeps the input open for now
            s.events.append({"ev": "note", "t": s.now(), "what": "stdout closed by the reader"})
            s.stop_reader = True
            s.reader.join(1.0)
            try:
                s.p.stdout.close()
            except OSError:
                pass
        elif do == "game":
            # a GUI-style game: position <start> moves <all moves so far> / go / the engine's move / the opponent's reply / ...
            # The opponent is either the reply the engine itself predicted (second PV move of its last info line) or the
            # move of a second, unrecorded process of the same binary asked with a zero allowance.
            opp = None
            moves = list(st.get("premoves") or [])
            for ply in range(st.get("plies", 4)):
                if not s.alive:
                    break
                cmd = st["start"] + (" moves " + " ".join(moves) if moves else "")
                extra = {}
                pl = position_payload(cmd)
                if pl:
                    extra["position"] = pl
                s.send(cmd, extra)
                golines = st["go"] if isinstance(st["go"], list) else [st["go"]]
                gl = golines[ply % len(golines)]
                gx = dict((st.get("go_extra") or {}).get(gl) or {}, go=True)
                if st.get("probe_prefix"):
                    gx["probe"] = "%s-%d" % (st["probe_prefix"], ply)
                    gx["timed"] = bool(gx.get("slice_w") or gx.get("slice_b"))
                n0 = len(s.events)
                ev = s.wait_for("bestmove", st.get("wait_ms", 6000)) if s.send(gl, gx) and s.alive else None
                if ev is None:
                    break
                s.drain(drain_ms)
                if not MOVE_RE.match(ev.get("move", "")):
                    break
                moves.append(ev["move"])
                reply = None
                if st.get("opp", "pv") == "pv" and ply % 2 == 0:
                    infos = [e for e in s.events[n0:] if e.get("k") == "info" and e["info"].get("ok")]
                    if infos and len(infos[-1]["info"]["pv"]) >= 2 and infos[-1]["info"]["pv"][0] == ev["move"]:
                        reply = infos[-1]["info"]["pv"][1]
                if reply is None:
                    if opp is None:
                        opp = Session(binary, None, cwd=cwd, prefix=prefix)
                        if not handshake(opp):
                            break
                    opp.send(st["start"] + " moves " + " ".join(moves))
                    opp.send("go")
                    oev = opp.wait_for("bestmove", 3000)
                    if oev is None or not MOVE_RE.match(oev.get("move", "")):
                        break
                    reply = oev["move"]
                moves.append(reply)
            if opp is not None:
                try:
                    opp.send("quit")
                    opp.finish("quit", 1000)
                except Exception:
                    pass
        elif do == "go_nowait":
            s.send(st["line"], dict(st.get("extra") or {}, go=True, notime=True))
        elif do == "eof":
            s.close_stdin()
            s.finish("eof", st.get("wait_ms", 2500))
            ended = True
            break
        elif do == "quit":
            s.send("quit", {"quit": True})
            s.finish("quit", st.get("wait_ms", 1500))
            ended = True
            break
    if not ended:
        if s.alive:
            s.close_stdin()
            s.finish("eof", 2500)
        else:
            s.finish("died", 500)
    return s.events


def write_trace(path, sessions):
    with open(path, "w") as f:
        for evs in sessions:
            for e in evs:
                f.write(json.dumps(e) + "\n")
