"""Checks decided by Chess.tla through TraceRules.tla: C01 C02 C04 C05 C06 C13 (+ C14 C15 events)."""
import glob
import json
import os
import shutil

import chessutil
import vcommon
from vcommon import Run, ToolError, log

# what each BAD code means, for the violation text
RULES_PROPS = ("C01", "C02", "C04", "C05", "C06", "C10", "C13", "C14", "C15")


def trace_dir(pid):
    d = os.path.join(vcommon.BUILD, "traces", "%s-%d" % (pid, os.getpid()))
    shutil.rmtree(d, ignore_errors=True)
    os.makedirs(d, exist_ok=True)
    return d


def event_key(ev, code):
    """Canonical failing input of an event, used as replay id and known-finding key."""
    if ev["ev"] == "gen":
        return "%s:%s:%s" % (code, ev["mode"], chessutil.s_to_fen(ev["pos"]).replace(" ", "_"))
    if ev["ev"] == "chk":
        return "%s:%s" % (code, chessutil.s_to_fen(ev["pos"]).replace(" ", "_"))
    if ev["ev"] == "pos":
        return "%s:%s" % (code, ev["cmd"].replace(" ", "_"))
    if ev["ev"] == "fen":
        return "%s:%s" % (code, json.dumps(ev["input"]))
    if ev["ev"] == "eval":
        return "%s:%s" % (code, chessutil.s_to_fen(ev["p"]).replace(" ", "_"))
    return code


def replay_of(ev):
    if ev["ev"] == "gen":
        return {"type": "walk", "fen": ev["path"]["fen"], "texts": ev["path"]["texts"], "capsfrom": ev["path"]["capsfrom"],
                "position": chessutil.s_to_fen(ev["pos"]), "mode": ev["mode"]}
    if ev["ev"] == "pos":
        return {"type": "position", "cmd": ev["cmd"]}
    return {"type": "event", "event": ev}


def judge(run, pid, results, also=()):
    """Fold the verdict records of validated shards into the run: coverage counters, violations of `pid`."""
    other = {}
    totals = {}
    for r in results:
        v = r["verdict"]
        run.add("states", r["distinct"])
        run.add("transitions", max(r["states"] - 1, 0))
        run.add("traces_validated_against_impl", 1)
        run.add("events_validated", v["lines"])
        for k, n in v["cnt"].items():
            totals[k] = totals.get(k, 0) + n
        for prop, line, code, detail in v["bad"]:
            if prop == "TOOL":
                raise ToolError("trace %s line %d: %s %s" % (r["file"], line, code, detail))
            if prop == pid or prop in also:
                ev = vcommon.read_event(r["file"], line)
                run.violation(event_key(ev, code), "%s at %s: %s" % (code, chessutil.s_to_fen(ev.get("pos", ev.get("p", {"r": [0] * 8, "stm": 0, "cr": 0, "ep": 0}))) if ev["ev"] in ("gen", "chk", "eval") else ev.get("cmd", ev.get("input", "")), detail),
                              replay_of(ev))
            else:
                other[prop] = other.get(prop, 0) + 1
    if other:
        log("conjuncts of other properties failed in the same trace (not judged here): %s" % other)
    run.cov.setdefault("event_counts", {})
    for k, n in totals.items():
        run.cov["event_counts"][k] = run.cov["event_counts"].get(k, 0) + n
    return totals


def rules_trace(run, pid, args, label, also=()):
    h = vcommon.build_harness()
    d = trace_dir(pid + "-" + label)
    summ = vcommon.run_harness(h, ["rules", "--out", d, "--shards", vcommon.NCPU, "--seed", vcommon.seed()] + args)
    files = sorted(glob.glob(os.path.join(d, "rules*.ndjson")))
    # one sample event for the evidence
    for f in files:
        if os.path.getsize(f) > 0:
            ev = json.loads(open(f).readline())
            if ev["ev"] == "gen":
                run.sample({"event": "gen", "mode": ev["mode"], "position": chessutil.s_to_fen(ev["pos"]),
                            "generated": [chessutil.move_name(m["s"]["d"]) for m in ev["moves"]][:40],
                            "path": ev["path"]["texts"][-6:]})
            else:
                run.sample({"event": ev["ev"], "cmd": ev.get("cmd", "")[:200]})
            break
    results = vcommon.validate_shards("TraceRules", "TraceRules.cfg", files)
    totals = judge(run, pid, results, also)
    shutil.rmtree(d, ignore_errors=True)
    return totals, summ


def replay_walk(run, pid, replay_path, also=()):
    h = vcommon.build_harness()
    d = trace_dir(pid + "-replay")
    summ = vcommon.run_harness(h, ["walk", "--out", d, "--replay", replay_path])
    if "error" in summ:
        log("replay: " + str(summ["error"]))
    files = sorted(glob.glob(os.path.join(d, "rules*.ndjson")))
    results = vcommon.validate_shards("TraceRules", "TraceRules.cfg", files)
    judge(run, pid, results, also)
    shutil.rmtree(d, ignore_errors=True)


def need(totals, keys):
    """Anti-vacuity: the special-move counters a check relies on must be non-zero."""
    missing = [k for k in keys if totals.get(k, 0) == 0]
    if missing:
        raise ToolError("coverage hole: no events of kind %s in this run" % missing)


def replay_position(run, pid, cmd, also=()):
    h = vcommon.build_harness()
    d = trace_dir(pid + "-replay")
    vcommon.run_harness(h, ["position", "--out", d, "--cmd", cmd])
    files = sorted(glob.glob(os.path.join(d, "rules*.ndjson")))
    results = vcommon.validate_shards("TraceRules", "TraceRules.cfg", files)
    judge(run, pid, results, also)
    shutil.rmtree(d, ignore_errors=True)
