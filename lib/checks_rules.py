"""Checks decided by Chess.tla through TraceRules.tla: C01 C02 C04 C05 C06 C13 (+ C14 C15 events)."""
import glob
import json
import os
import shutil

import chessutil
import vcommon
from vcommon import Run, ToolError, log

# what each BAD code means, for the violation text
RULES_PROPS = ("C01", "C02", "C04", "C05", "C06", "C10", "C13", "C14", "C15")


def trace_dir(pid):
    d = os.path.join(vcommon.BUILD, "traces", "%s-%d" % (pid, os.getpid()))
    shutil.rmtree(d, ignore_errors=True)
    os.makedirs(d, exist_ok=True)
    return d


def event_key(ev, code):
    """Canonical failing input of an event, used as replay id and known-finding key."""
    if ev["ev"] == "gen":
        return "%s:%s:%s" % (code, ev["mode"], chessutil.s_to_fen(ev["pos"]).replace(" ", "_"))
    if ev["ev"] == "chk":
        return "%s:%s" % (code, chessutil.s_to_fen(ev["pos"]).replace(" ", "_"))
    if ev["ev"] == "pos":
        return "%s:%s" % (code, ev["cmd"].replace(" ", "_"))
    if ev["ev"] == "fen":
        return "%s:%s" % (code, json.dumps(ev["input"]))
    if ev["ev"] == "eval":
        return "%s:%s" % (code, chessutil.s_to_fen(ev["p"]).replace(" ", "_"))
    return code


def replay_of(ev):
    if ev["ev"] == "gen":
        return {"type": "walk", "fen": ev["path"]["fen"], "texts": ev["path"]["texts"], "capsfrom": ev["path"]["capsfrom"],
                "position": chessutil.s_to_fen(ev["pos"]), "mode": ev["mode"]}
    if ev["ev"] == "pos":
        return {"type": "position", "cmd": ev["cmd"]}
    return {"type": "event", "event": ev}


def judge(run, pid, results, also=()):
    """Fold the verdict records of validated shards into the run: coverage counters, violations of `pid`."""
    other = {}
    totals = {}
    for r in results:
        v = r["verdict"]
        run.add("states", r["distinct"])
        run.add("transitions", max(r["states"] - 1, 0))
        run.add("traces_validated_against_impl", 1)
        run.add("events_validated", v["lines"])
        for k, n in v["cnt"].items():
            totals[k] = totals.get(k, 0) + n
        for prop, line, code, detail in v["bad"]:
            if prop == "TOOL":
                raise ToolError("trace %s line %d: %s %s" % (r["file"], line, code, detail))
            # `also` holds property ids or (property id, conjunct) pairs whose failures count for this check as well
            if prop == pid or prop in also or (prop, code) in also:
                ev = vcommon.read_event(r["file"], line)
                run.violation(event_key(ev, code), "%s at %s: %s" % (code, chessutil.s_to_fen(ev.get("pos", ev.get("p", {"r": [0] * 8, "stm": 0, "cr": 0, "ep": 0}))) if ev["ev"] in ("gen", "chk", "eval") else ev.get("cmd", ev.get("input", "")), detail),
                              replay_of(ev))
            else:
                other[prop] = other.get(prop, 0) + 1
                run.foreign(prop, code, detail)
    if other:
        log("conjuncts of other properties failed in the same trace (not judged here): %s" % other)
    run.cov.setdefault("event_counts", {})
    for k, n in totals.items():
        run.cov["event_counts"][k] = run.cov["event_counts"].get(k, 0) + n
    return totals


def rules_trace(run, pid, args, label, also=(), shards=None):
    h = vcommon.build_harness()
    d = trace_dir(pid + "-" + label)
    # trace files are kept small (TLC loads a whole file): the thorough tier uses many more shards than workers
    nsh = shards or (vcommon.NCPU if run.tier == "quick" else vcommon.NCPU * 12)
    summ = vcommon.run_harness(h, ["rules", "--out", d, "--shards", nsh, "--seed", vcommon.seed()] + args)
    files = sorted(glob.glob(os.path.join(d, "rules*.ndjson")))
    # one sample event for the evidence
    for f in files:
        if os.path.getsize(f) > 0:
            ev = json.loads(open(f).readline())
            if ev["ev"] == "gen":
                run.sample({"event": "gen", "mode": ev["mode"], "position": chessutil.s_to_fen(ev["pos"]),
                            "generated": [chessutil.move_name(m["s"]["d"]) for m in ev["moves"]][:40],
                            "path": ev["path"]["texts"][-6:]})
            else:
                run.sample({"event": ev["ev"], "cmd": ev.get("cmd", "")[:200]})
            break
    results = vcommon.validate_shards("TraceRules", "TraceRules.cfg", files)
    totals = judge(run, pid, results, also)
    shutil.rmtree(d, ignore_errors=True)
    return totals, summ


def replay_walk(run, pid, replay_path, also=()):
    h = vcommon.build_harness()
    d = trace_dir(pid + "-replay")
    summ = vcommon.run_harness(h, ["walk", "--out", d, "--replay", replay_path])
    if "error" in summ:
        log("replay: " + str(summ["error"]))
    files = sorted(glob.glob(os.path.join(d, "rules*.ndjson")))
    results = vcommon.validate_shards("TraceRules", "TraceRules.cfg", files)
    judge(run, pid, results, also)
    shutil.rmtree(d, ignore_errors=True)


def need(totals, keys):
    """Anti-vacuity: the special-move counters a check relies on must be non-zero."""
    missing = [k for k in keys if totals.get(k, 0) == 0]
    if missing:
        raise ToolError("coverage hole: no events of kind %s in this run" % missing)


def replay_position(run, pid, cmd, also=()):
    h = vcommon.build_harness()
    d = trace_dir(pid + "-replay")
    vcommon.run_harness(h, ["position", "--out", d, "--cmd", cmd])
    files = sorted(glob.glob(os.path.join(d, "rules*.ndjson")))
    results = vcommon.validate_shards("TraceRules", "TraceRules.cfg", files)
    judge(run, pid, results, also)
    shutil.rmtree(d, ignore_errors=True)


def family_direction_a(run, pid, kinds, sample, fams=("castle", "ep", "promo")):
    """Direction spec -> code: TLC enumerates a geometric family from Chess.tla and prints what the rules say for every
    member; the harness builds each member directly into a BoardState, runs the real generator / is_check and compares.
    kinds: which mismatch kinds belong to this property (moveset -> C01, caps -> C13, check -> C06)."""
    h = vcommon.build_harness()
    d = trace_dir(pid + "-fam")
    total = {"members": 0, "states": 0}
    for fam in fams:
        smp = sample.get(fam, 1)
        r = vcommon.tlc("Fam", "Fam.cfg", env={"FAMILY": fam, "SAMPLE": str(smp), "OFFSET": str(vcommon.seed() % smp)}, workers=vcommon.NCPU,
                        xmx="8g", timeout=3000)
        if not r["ok"]:
            raise ToolError("family enumeration failed:\n" + r["out"][-2000:])
        path = os.path.join(d, fam + ".ndjson")
        n = 0
        with open(path, "w") as f:
            for pr in vcommon.tlc_prints(r["out"], "FAM"):
                f.write(pr[1] + "\n")
                n += 1
        if n == 0:
            raise ToolError("coverage hole: family %s has no members" % fam)
        res = vcommon.run_harness(h, ["famreplay", "--in", path])
        run.add("states", r["distinct"])
        run.add("transitions", r["states"])
        run.cov.setdefault("families_from_spec", {})[fam] = {"members_replayed": res["members"], "sample": "1/%d" % smp, "exhaustive": smp == 1,
                                                             "tlc_states": r["distinct"], "nontrivial": res["nontrivial"]}
        total["members"] += res["members"]
        if fam == fams[0]:
            first = json.loads(open(path).readline())
            run.sample({"family": fam, "member": chessutil.s_to_fen(first["pos"]), "rules_say_legal": [chessutil.move_name(m) for m in first["legal"]][:30]})
        for mm in res["mismatches"]:
            if mm["kind"] in kinds or mm["kind"] == "panic":
                fen = chessutil.s_to_fen(mm["pos"])
                if mm["kind"] in ("successor-after", "text-after", "text-printed", "residue-after"):
                    mv = chessutil.move_name(mm["after"])
                    run.violation("family-%s:%s:%s:%s" % (mm["kind"], fam, fen.replace(" ", "_"), mv),
                                  "%s: after %s at %s the engine has %s, the rules give %s" % (mm["kind"], mv, fen, str(mm.get("engine"))[:200], str(mm.get("rules"))[:200]),
                                  {"type": "walk", "fen": fen, "texts": [], "capsfrom": -1})
                    continue
                if mm["kind"] == "moveset-after":
                    mv = chessutil.move_name(mm["after"])
                    run.violation("family-moveset-after:%s:%s:%s" % (fam, fen.replace(" ", "_"), mv),
                                  "generated moves after %s differ from the rules at %s: extra %s missing %s" % (mv, fen, mm["extra"], mm["missing"]),
                                  {"type": "walk", "fen": fen, "texts": [mv], "capsfrom": -1})
                    continue
                run.violation("family-%s:%s:%s" % (mm["kind"], fam, fen.replace(" ", "_")), "%s differs from the rules at %s: %s" % (
                    mm["kind"], fen, {k: v for k, v in mm.items() if k not in ("pos", "kind")}),
                    {"type": "walk", "fen": fen, "texts": [], "capsfrom": 0 if mm["kind"] == "caps" else -1})
    run.add("traces_validated_against_impl", total["members"])
    shutil.rmtree(d, ignore_errors=True)
    return total


def games_direction_a(run, pid, kinds, seconds, maxn=40):
    """Direction spec -> code: games simulated by TLC from Chess.tla (Games.tla), replayed through the text applier."""
    h = vcommon.build_harness()
    d = trace_dir(pid + "-games")
    seeds = os.path.join(d, "seeds.ndjson")
    with open(seeds, "w") as f:
        for x in open(os.path.join(vcommon.VERIF, "harness", "seeds.txt")):
            if x.strip():
                s = chessutil.fen_to_s(x.strip())
                f.write(json.dumps({k: s[k] for k in ("r", "stm", "cr", "ep")}) + "\n")
    r = vcommon.tlc("Games", "Games.cfg", env={"SEEDS": seeds, "MAXN": str(maxn)}, workers=vcommon.NCPU, xmx="4g", timeout=seconds,
                    extra=["-simulate", "-depth", str(maxn + 5), "-seed", str(vcommon.seed())])
    games = vcommon.tlc_prints(r["out"], "GAME")
    if len(games) < 20:
        raise ToolError("game simulation produced too few games:\n" + r["out"][-1500:])
    path = os.path.join(d, "games.ndjson")
    with open(path, "w") as f:
        for g in games:
            f.write(g[1] + "\n")
    res = vcommon.run_harness(h, ["gamereplay", "--in", path])
    run.cov["games_from_spec"] = {"games": res["games"], "plies": res["plies"], "promotion_moves": res["promotions"], "tlc_simulation_s": seconds}
    run.add("traces_validated_against_impl", res["games"])
    g0 = json.loads(games[0][1])
    run.sample({"tlc_game": "position fen %s moves %s" % (g0["fen"], " ".join(g0["texts"][:12]))})
    for mm in res["mismatches"]:
        k = mm["kind"]
        if k in kinds:
            run.violation("game-%s:%s" % (k, mm["cmd"].replace(" ", "_")[:400]), "%s in a TLC-generated game at prefix %s (%s)" % (k, mm.get("prefix"), mm.get("text")),
                          {"type": "position", "cmd": mm["cmd"]})
    shutil.rmtree(d, ignore_errors=True)
