"""UCI process checks (stub, filled in below)."""


def timed_info_lines(run, pid, tier):
    return


def position_dumps(run, pid, tier):
    return


def replay_session(run, pid, spec):
    return run.finish()
