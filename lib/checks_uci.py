"""Checks on the real binary as a process (black box over pipes), judged by TraceUci.tla, plus the model runs of
Walleye.tla: C03 C08 C09 C16 C17, and the process-level parts of C10 / C18."""
import glob
import json
import os
import random
import re
import shutil
import time
from concurrent.futures import ThreadPoolExecutor

import checks_rules as R
import uci_driver as U
import vcommon
from vcommon import Run, ToolError, log

OVERHEAD_MS = 250
FORCED = []      # positions with exactly one legal move from the last pool() call
# the only legal move is an en-passant capture (the pawn that just double-stepped gives check and nothing else helps): a "has
# the side to move any move" shortcut that forgets the special moves answers such a position with the null move (what is
# legal in these positions is TLC's verdict, not this list's; the last entry is an ordinary position reached by a double step)
ONLY_SPECIAL = ["position fen 8/8/5k2/5ppP/7K/r7/8/8 w - g6 0 1", "position fen 8/8/R7/7k/5PPp/5K2/8/8 b - g3 0 1",
                "position fen 8/8/8/8/4k3/8/5P2/r3K3 w - - 0 1 moves e1d2 a1a3 f2f4"]

GO_ZERO = ["go", "go infinite", "go wtime 0 btime 0", "go wtime -5 btime -5 winc 0 binc 0", "go wtime 100 btime 100", "go wtime 101 btime 101",
           "go movestogo 3", "go winc 0 binc 0 wtime 90 btime 90 movestogo 2",
           "go wtime -250 btime -250 winc 1000 binc 1000", "go wtime -1 btime -1 winc 5 binc 5 movestogo 2", "go wtime 0 btime 0 winc 2000 binc 2000"]
GO_SMALL = ["go wtime 130 btime 130 movestogo 1", "go wtime 160 btime 160 winc 5 binc 5 movestogo 1", "go wtime 1000 btime 1000",
            "go btime 400 wtime 400 movestogo 4", "go wtime 50 btime 50 winc 40 binc 40", "go wtime 225 btime 225 movestogo 1"]
GO_MEDIUM = ["go wtime 475 btime 475 movestogo 1", "go wtime 1100 btime 1100 movestogo 5", "go wtime 3850 btime 3850",
             "go wtime 600 btime 600 movestogo 2"]
GO_ODD = ["go ponder wtime 400 btime 400 movestogo 2", "go searchmoves e2e4 d2d4 wtime 300 btime 300 movestogo 1", "go   wtime 300   btime 300 movestogo 1",
          "go depth 3 wtime 200 btime 200 movestogo 1", "go wtime 300 frobnicate btime 300 movestogo 1", "go infinite wtime 200 btime 200 movestogo 1",
          "go\twtime 200 btime 200 movestogo 1", "go wtime 200 btime 200 movestogo 1 nodes", "go mate wtime 250 btime 250 movestogo 1"]
LONG_GARBAGE = ["x" * 63 + "\u00e9" + "y" * 10, "\u00e9" * 40, "z" * 62 + "\u2654\u2654 tail", "debug " + "\u00df" * 70, "q" * 64 + "\u00e9"]
GARBAGE = ["", " ", "   \t ", "xyzzy", "stop", "ponderhit", "debug on", "register later", "isreadyy", "go2", "ucinewgame now", "éè ♔",
           "a" * 3000, "uci", "setoption name Hash value 32", "setoption name Ponder value true", "setoption name Clear Hash", "setoption name Ponder", "setoption", "setoption value 12", "setoption name", "ucinewgame", "flip", "d", "eval", "bench", "print",
           "Go", "POSITION startpos", "quit1", "gobble", "goo wtime 1000 btime 1000", "quitter", "isreadyx", "positions startpos moves e2e4", "setoptions name DebugLogLevel value Info", "ucinewgames", "%s%s%n", "\x07\x1b[0m", "go_", "isready ", "   "]


def mk(pid, tier, replay):
    return Run(pid, tier, "model_checking", replay=bool(replay) or bool(os.environ.get("VERIF_NO_EVIDENCE")))


def model_walleye(run, tier):
    # quick: 3 commands (47 k states); thorough: 5 commands (3.5 M states, safety + liveness, ~4 min)
    cfg = "MC_Walleye_fixed.cfg" if tier == "quick" else "MC_Walleye_fixed_huge.cfg"
    r = vcommon.tlc("Walleye", cfg, workers=8 if tier == "quick" else 12, xmx="8g" if tier == "quick" else "24g", timeout=3000)
    if not r["ok"]:
        raise ToolError("Walleye model run failed:\n" + r["out"][-3000:])
    run.add("states", r["distinct"])
    run.add("transitions", r["states"])
    run.cov.setdefault("model", []).append({"module": "Walleye (%s): safety + liveness, all interleavings" % cfg, "distinct_states": r["distinct"],
                                            "states_generated": r["states"], "wall_s": round(r["wall"], 1)})


def inductive_walleye(run):
    """Apalache (symbolic, parameters unbounded): IndInv of WalleyeInd.tla is inductive for the repaired configuration and
    implies AnswerFitsPosition / ChannelFresh; the obligations are shown non-vacuous by two runs that must fail."""
    t0 = time.time()
    obligations = [("Init => IndInv", ["--cinit=CInit", "--init=Init", "--inv=IndInv", "--length=0"], "NoError"),
                   ("IndInv /\\ Next => IndInv'", ["--cinit=CInit", "--init=IndInit", "--inv=IndInv", "--length=1"], "NoError"),
                   ("IndInv => Safety", ["--cinit=CInit", "--init=IndInit", "--inv=Safety", "--length=0"], "NoError"),
                   ("sanity: IndInit admits a go in service", ["--cinit=CInit", "--init=IndInit", "--inv=NotServing", "--length=0"], "Error"),
                   ("sanity: shared-channel variant is not inductive", ["--cinit=CInitShared", "--init=IndInit", "--inv=IndInv", "--length=1"], "Error")]
    from concurrent.futures import ThreadPoolExecutor as TPE
    with TPE(max_workers=5) as ex:
        outs = list(ex.map(lambda o: vcommon.apalache("WalleyeInd", o[1]), obligations))
    res = []
    for (name, _, want), got in zip(obligations, outs):
        if got != want:
            raise ToolError("inductive invariant obligation '%s': expected %s, got %s" % (name, want, got))
        res.append({"obligation": name, "outcome": got})
    run.cov["apalache_inductive_invariant"] = {"module": "WalleyeInd", "obligations": res, "wall_s": round(time.time() - t0, 1),
                                               "note": "parameters MaxCmds/MaxMoves/MaxSlice/MaxSends symbolic; sequences bounded by the generators (channel <= 4)"}


def pool(h, seed, small=10, mate=6, rep=4, game=8, term=0):
    path = os.path.join(vcommon.BUILD, "scen-uci-%d.json" % os.getpid())
    vcommon.run_harness(h, ["scen", "--out", path, "--seed", seed, "--small", small, "--mate", mate, "--rep", rep, "--game", game, "--term", term])
    items = json.load(open(path))
    os.remove(path)
    live = [x["cmd"] for x in items if x["tag"] not in ("terminal", "forced")]
    FORCED[:] = [x["cmd"] for x in items if x["tag"] == "forced"] + ONLY_SPECIAL
    live.append("position startpos")
    live.append("position startpos moves e2e4 e7e5 g1f3")
    return live, [x["cmd"] for x in items if x["tag"] == "terminal"]


def plan(h, sessions):
    """Attach to every go step the slices the engine's own parse_go_command / calculate_time_slice give (both colours)
    and the token list; TraceUci picks the colour from the tracked position and checks the contract."""
    lines = {st["line"] for steps in sessions for st in steps if st["do"] in ("go", "go_nowait")}
    for steps in sessions:
        for st in steps:
            if st["do"] == "game":
                lines |= set(st["go"] if isinstance(st["go"], list) else [st["go"]])
    lines = sorted(lines)
    if not lines:
        return
    d = os.path.join(vcommon.BUILD, "plan-%d" % os.getpid())
    os.makedirs(d, exist_ok=True)
    json.dump(lines, open(os.path.join(d, "in.json"), "w"))
    table = {}
    try:
        vcommon.run_harness(h, ["slices", "--in", os.path.join(d, "in.json"), "--out", os.path.join(d, "out.ndjson")], timeout=60)
        for l in open(os.path.join(d, "out.ndjson")):
            e = json.loads(l)
            table[e["line"]] = e
    except Exception:
        # the engine's go parser does not return on some line: find out which, one line per process
        for ln in lines:
            json.dump([ln], open(os.path.join(d, "one.json"), "w"))
            try:
                vcommon.run_harness(h, ["slices", "--in", os.path.join(d, "one.json"), "--out", os.path.join(d, "one.ndjson")], timeout=5)
                table[ln] = json.loads(open(os.path.join(d, "one.ndjson")).readline())
            except Exception:
                table[ln] = {"line": ln, "toks": ln.split(), "panic": True}
    shutil.rmtree(d, ignore_errors=True)
    for steps in sessions:
        for st in steps:
            if st["do"] == "game":
                # (game steps only use small, well-formed clocks)
                st["go_extra"] = {gl: {"toks": table[gl]["toks"], "slice_w": table[gl].get("slice_w", 0), "slice_b": table[gl].get("slice_b", 0),
                                       **({"notime": True} if table[gl].get("panic") else {})}
                                  for gl in (st["go"] if isinstance(st["go"], list) else [st["go"]])}
                st["wait_ms"] = min(max([max(table[gl].get("slice_w", 0), table[gl].get("slice_b", 0)) for gl in st["go_extra"]] + [0]), 6000) + 4000
            if st["do"] in ("go", "go_nowait"):
                e = table[st["line"]]
                ex = st.setdefault("extra", {})
                if any(len(tk.lstrip("-")) > 9 for tk in e["toks"] if tk.lstrip("-").isdigit()):
                    # numbers beyond TLC's 32-bit integers: the session is judged without the slice contract and timing
                    ex.update({"toks": ["go"], "slice_w": 0, "slice_b": 0, "notime": True, "nocontract": True})
                    st["wait_ms"] = st.get("wait_ms", 8000)
                    continue
                if e.get("panic"):
                    # the engine's own go parser panics on this (well-formed) line: no plan; the session still runs
                    # on the real binary, where the consequence (process death / no answer) is what gets judged
                    ex.update({"toks": e["toks"], "slice_w": 0, "slice_b": 0, "notime": True})
                    st["wait_ms"] = 3000
                    continue
                ex.update({"toks": e["toks"], "slice_w": e["slice_w"], "slice_b": e["slice_b"]})
                # the sessions only use clocks that plan at most a few seconds; a plan beyond that (a defect) must not
                # make the driver wait for it
                st["wait_ms"] = min(max(e["slice_w"], e["slice_b"]), 6000) + 4000


def run_sessions(binary, sessions, conc, trace_paths=None, pin=False, cwd=None):
    def one(i):
        tp = trace_paths[i] if trace_paths else None
        # schedule perturbation: both threads of the engine pinned to ONE core, shared with the other sessions pinned there
        prefix = ["taskset", "-c", str(i % 2)] if (pin and shutil.which("taskset")) else None
        return U.run_script(binary, sessions[i], tp, prefix=prefix, cwd=cwd)
    with ThreadPoolExecutor(max_workers=conc) as ex:
        return list(ex.map(one, range(len(sessions))))


def validate(run, pid, label, logs, also=(), shard_of=None, overhead=OVERHEAD_MS, scripts=None, binary=None):
    """Write the session logs into NCPU trace files, validate with TraceUci, fold the verdicts."""
    d = R.trace_dir(pid + "-" + label)
    n = min(vcommon.NCPU, max(1, len(logs)))
    files = [open(os.path.join(d, "uci%02d.ndjson" % i), "w") for i in range(n)]
    where = {}
    counts = [0] * n
    for i, evs in enumerate(logs):
        k = shard_of(i) % n if shard_of else i % n
        for e in evs:
            files[k].write(json.dumps(e) + "\n")
            counts[k] += 1
            where[(k, counts[k])] = i
    for f in files:
        f.close()
    paths = [os.path.join(d, "uci%02d.ndjson" % i) for i in range(n)]
    results = vcommon.validate_shards("TraceUci", "TraceUci.cfg", paths, env_extra={"OVERHEAD": str(overhead)})
    totals, other = {}, {}
    late = []
    for r in results:
        v = r["verdict"]
        k = paths.index(r["file"])
        run.add("states", r["distinct"])
        run.add("transitions", max(r["states"] - 1, 0))
        run.add("events_validated", v["lines"])
        for kk, nn in v["cnt"].items():
            totals[kk] = totals.get(kk, 0) + nn
        for prop, line, code, detail in v["bad"]:
            if prop == "TOOL":
                raise ToolError("trace %s line %d: %s %s" % (r["file"], line, code, detail))
            si = where.get((k, line))
            if prop == pid or prop in also:
                if code == "answered-late" and scripts is not None and binary is not None:
                    late.append((si, code, detail))
                    continue
                script = scripts[si] if scripts is not None and si is not None else None
                rep = {"type": "session", "script": script, "label": label}
                if script is not None and code in ("reply-depends-on-history", "improvements-depend-on-history"):
                    # a memo violation needs the reference session of the same probe as well
                    pid_ = [st["extra"]["probe"] for st in script if st["do"] == "go" and (st.get("extra") or {}).get("probe")]
                    ref = [sc for sc in scripts if any(st["do"] == "go" and (st.get("extra") or {}).get("probe") in pid_ for st in sc)]
                    rep["scripts"] = [ref[0], script] if ref and ref[0] is not script else [script]
                run.violation("%s:%s" % (code, re.sub(r"\s+", "_", detail)[:300]), "%s: %s" % (code, detail), rep)
            else:
                other[prop] = other.get(prop, 0) + 1
                if not (scripts is not None and si is not None and any(st.get("expect_unanswered") for st in scripts[si])):
                    run.foreign(prop, code, detail)
    run.add("traces_validated_against_impl", len(logs))
    # upper timing bounds are confirmed in isolation (at least 2 of 3 re-runs) before they are reported
    for si, code, detail in late:
        confirmed = 0
        for _ in range(3):
            evs = U.run_script(binary, scripts[si])
            dd = R.trace_dir(pid + "-late")
            p = os.path.join(dd, "uci00.ndjson")
            U.write_trace(p, [evs])
            rr = vcommon.validate_shards("TraceUci", "TraceUci.cfg", [p], env_extra={"OVERHEAD": str(overhead)})
            if any(b[2] == "answered-late" for b in rr[0]["verdict"]["bad"]):
                confirmed += 1
            shutil.rmtree(dd, ignore_errors=True)
        # the tight bound of the quiet-stretch family (below) must reproduce every time
        if confirmed >= (2 if overhead >= OVERHEAD_MS else 3):
            run.violation("%s:%s" % (code, re.sub(r"\s+", "_", detail)[:300]), "%s (reproduced %d/3 in isolation): %s" % (code, confirmed, detail),
                          {"type": "session", "script": scripts[si], "label": label})
        else:
            run.cov["late_answers_not_reproduced"] = run.cov.get("late_answers_not_reproduced", 0) + 1
    if other:
        log("conjuncts of other properties failed in the same trace (not judged here): %s" % other)
    ec = run.cov.setdefault("event_counts", {})
    for kk, nn in totals.items():
        ec[kk] = ec.get(kk, 0) + nn
    shutil.rmtree(d, ignore_errors=True)
    return totals


def sample_session(run, script, evs):
    outs = [e["line"] for e in evs if e["ev"] == "out" and e.get("k") in ("bestmove", "readyok")]
    run.sample({"script": [(st["do"], st.get("line", "")[:90]) for st in script][:8], "answers": outs[:6]})


def replay_session(run, pid, spec):
    binary = vcommon.build_binary(False)
    h = vcommon.build_harness()
    scripts = spec.get("scripts") or [spec["script"]]
    plan(h, scripts)
    logs = [U.run_script(binary, sc) for sc in scripts]
    validate(run, pid, "replay", logs, shard_of=lambda i: 0, scripts=scripts, binary=binary)
    return run.finish()


# ------------------------------------------------------------------------------------------------------------
def c03(tier, replay):
    run = mk("C03", tier, replay)
    if replay:
        return replay_session(run, "C03", json.load(open(replay))["replay"])
    rng = random.Random(vcommon.seed() * 31 + 3)
    h = vcommon.build_harness()
    binary = vcommon.build_binary(False)
    q = tier == "quick"
    live, _ = pool(h, vcommon.seed(), 12 if q else 60, 6 if q else 30, 4 if q else 20, 10 if q else 60)
    sessions = []
    # every command sequence of the process model's environment up to length 3 (position / go zero / go timed / isready / garbage)
    alphabet = ["pos", "go0", "got", "ready", "junk"]
    seqs = [[a] for a in alphabet] + [[a, b] for a in alphabet for b in alphabet] + \
           [[a, b, c] for a in alphabet for b in alphabet for c in alphabet]
    if q:
        seqs = [s for s in seqs if len(s) < 3] + rng.sample([s for s in seqs if len(s) == 3], 25)
    for sq in seqs:
        steps = []
        for a in sq:
            if a == "pos":
                steps.append({"do": "send", "line": rng.choice(live)})
            elif a == "go0":
                steps.append({"do": "go", "line": rng.choice(GO_ZERO)})
            elif a == "got":
                steps.append({"do": "go", "line": rng.choice(GO_SMALL + GO_ODD)})
            elif a == "ready":
                steps.append({"do": "isready"})
            else:
                steps.append({"do": "send", "line": rng.choice(GARBAGE)})
        sessions.append(steps)
    # runs of consecutive go commands on one position (answers must be legal in the position reached by the previous answers)
    for _ in range(14 if q else 150):
        steps = [{"do": "send", "line": rng.choice(live)}]
        for _ in range(rng.randint(2, 6)):
            steps.append({"do": "go", "line": rng.choice(GO_ZERO + GO_SMALL + GO_ODD)})
        sessions.append(steps)
    # the same position command repeated after a go (the engine's board has moved on; the command must set it back)
    for _ in range(8 if q else 60):
        p = rng.choice(live)
        steps = []
        for _ in range(rng.randint(2, 3)):
            steps.append({"do": "send", "line": p})
            if rng.random() < 0.3:
                steps.append({"do": "isready"})
            steps.append({"do": "go", "line": rng.choice(GO_ZERO + GO_SMALL)})
        sessions.append(steps)
    # queen-heavy positions (the first root move alone outlasts a small slice) and the tactical seed positions (promotion
    # next to castling, en passant, corner captures) with runs of go: the engine answers its own previous answers
    hp = os.path.join(vcommon.BUILD, "heavy-%d.json" % os.getpid())
    vcommon.run_harness(h, ["heavy", "--out", hp, "--n", 6 if q else 40, "--queens", 9, "--seed", vcommon.seed() + 3])
    for fen in json.load(open(hp)):
        sessions.append([{"do": "send", "line": "position fen " + fen}, {"do": "go", "line": rng.choice(GO_SMALL)}, {"do": "go", "line": rng.choice(GO_ZERO)}])
    os.remove(hp)
    tactical = [l.strip() for l in open(os.path.join(vcommon.VERIF, "harness", "seeds.txt")) if l.strip()]
    # (the two "promotion next to castling" seeds always: the engine's own promotion followed by a castling reply of the other
    # side is where a stale promotion piece shows in the next answer)
    always = [f for f in tactical if "1P4P1" in f]
    for fen in (always + rng.sample([f for f in tactical if f not in always], 8)) if q else tactical:
        steps = [{"do": "send", "line": "position fen " + fen}]
        for _ in range(4):
            steps.append({"do": "go", "line": rng.choice(GO_ZERO + GO_ZERO + GO_SMALL)})
        sessions.append(steps)
    # forced replies, among them positions whose only legal move is an en-passant capture / a promotion
    for p in FORCED:
        sessions.append([{"do": "send", "line": p}, {"do": "go", "line": rng.choice(GO_SMALL)}, {"do": "send", "line": p}, {"do": "go", "line": rng.choice(GO_ZERO)}])
    # go lines made of UCI keywords the pinned engine does not know, with small values and no clock (to the pinned engine a go
    # without any clock; an engine that learns `movetime` / `depth` / `nodes` must still answer each of them exactly once - a
    # slice computed as "movetime minus overhead" on unsigned numbers never ends for small values)
    for gl in ("go movetime 10", "go movetime 0", "go movetime 1", "go movetime 19", "go movetime 250", "go depth 1", "go depth 0", "go nodes 1", "go nodes 0", "go mate 1"):
        sessions.append([{"do": "send", "line": rng.choice(live)}, {"do": "go", "line": gl}, {"do": "isready"}, {"do": "go", "line": gl}, {"do": "isready"}])
    # GUI-style games: position <game so far> / go / reply / ... in one process
    games, _ = game_sessions(rng, live, 4 if q else 40, "c3g", plies=6)
    sessions += games
    run.cov["gui_style_games"] = len(games)
    # tiny slices (1-30 ms): the deadline falls into the first root move / the polling sleep
    for _ in range(10 if q else 100):
        steps = []
        for _ in range(3):
            steps.append({"do": "send", "line": rng.choice(live)})
            steps.append({"do": "go", "line": "go wtime %d btime %d movestogo 1" % ((rng.randint(101, 140),) * 2)})
            steps.append({"do": "go", "line": rng.choice(GO_ZERO)})
        sessions.append(steps)
    plan(h, sessions)
    logs = run_sessions(binary, sessions, 8)
    sample_session(run, sessions[-1], logs[-1])
    totals = validate(run, "C03", "sessions", logs, scripts=sessions, binary=binary)
    # the same kind of sessions with the engine's two threads forced onto one shared core (other interleavings of the
    # polling loop and the search thread than an idle 16-core machine produces)
    pinned = [s_ for s_ in sessions if any(st["do"] == "go" for st in s_)][: (30 if q else 200)]
    plogs = run_sessions(binary, pinned, 8, pin=True)
    ptot = validate(run, "C03", "pinned", plogs, scripts=pinned, binary=binary)
    run.cov["sessions_with_threads_pinned_to_one_core"] = len(pinned)
    if totals.get("bestmoves", 0) < 20:
        raise ToolError("coverage hole: fewer than 20 bestmove lines observed")
    thread_events(run, "C03", tier)
    model_walleye(run, tier)
    inductive_walleye(run)
    run.cov["rule"] = ("sessions against the real binary (guard off): every command sequence of Walleye.tla's environment alphabet {position, go with zero "
                       "allowance, go with a clock, isready, ignored line} up to length 3 (quick: all of length <= 2 and a sample of length 3), runs of 2-6 "
                       "consecutive go on one position, and go with 1-30 ms slices followed by a zero-allowance go; positions from the scenario generators "
                       "(endgames, mate positions, repetition histories, game positions with move lists), go parameters from a grid incl. none / infinite / "
                       "zero / negative / unknown tokens; TraceUci tracks the position with Chess!Apply and requires exactly one bestmove per go, legal and "
                       "well spelled")
    return run.finish()


def c08(tier, replay):
    run = mk("C08", tier, replay)
    if replay:
        return replay_session(run, "C08", json.load(open(replay))["replay"])
    rng = random.Random(vcommon.seed() * 31 + 8)
    h = vcommon.build_harness()
    binary = vcommon.build_binary(False)
    q = tier == "quick"
    live, term = pool(h, vcommon.seed() + 1, 8 if q else 40, 10 if q else 60, 3 if q else 20, 6 if q else 40, 14 if q else 120)
    clocks = ["go wtime 130 btime 130 movestogo 1", "go wtime 350 btime 350 movestogo 1", "go wtime 1000 btime 1000 movestogo 10", "go wtime 104 btime 104 movestogo 1",
              "go wtime 112 btime 112 movestogo 1", "go wtime 60 btime 60 winc 30 binc 30 movestogo 3", "go wtime 700 btime 700 movestogo 2"]
    sessions = []
    for t in term:
        for c in rng.sample(clocks, 2 if q else 4):
            sessions.append([{"do": "send", "line": t}, {"do": "go", "line": c}, {"do": "isready"},
                             {"do": "send", "line": rng.choice(live)}, {"do": "go", "line": rng.choice(clocks)}, {"do": "isready"}])
    for p in live:
        c = rng.choice(clocks)
        sessions.append([{"do": "send", "line": p}, {"do": "go", "line": c}, {"do": "isready"}, {"do": "go", "line": rng.choice(clocks)}, {"do": "isready"}])
    # clocks with unknown tokens in between (still clock settings with movestogo >= 1)
    for g in GO_ODD:
        sessions.append([{"do": "send", "line": rng.choice(live)}, {"do": "go", "line": g}, {"do": "isready"}])
    # forced replies (also: the only legal move is an en-passant capture / a promotion - not a finished game)
    for p in FORCED:
        sessions.append([{"do": "send", "line": p}, {"do": "go", "line": rng.choice(clocks)}, {"do": "isready"}])
    # go after the engine's own move may meet a finished game: mate-in-one positions, two go in a row
    for p in [x for x in live if True][: (10 if q else 60)]:
        sessions.append([{"do": "send", "line": p}, {"do": "go", "line": "go wtime 220 btime 220 movestogo 1"}, {"do": "go", "line": "go wtime 130 btime 130 movestogo 1"},
                         {"do": "isready"}])
    # queen-heavy legal positions (up to nine queens a side in contact): capture trees explode, the answer is due all the same
    hp = os.path.join(vcommon.BUILD, "heavy-%d.json" % os.getpid())
    vcommon.run_harness(h, ["heavy", "--out", hp, "--n", 24 if q else 200, "--queens", 9, "--seed", vcommon.seed()])
    heavy = json.load(open(hp))
    os.remove(hp)
    for fen in heavy:
        sessions.append([{"do": "send", "line": "position fen " + fen}, {"do": "go", "line": rng.choice(clocks[:3])}, {"do": "isready"}])
    run.cov["queen_heavy_positions"] = len(heavy)
    # direction spec -> code: every finished game of K+Q / K+R against K (both colours), enumerated by TLC from Chess.tla
    smp = 20 if q else 1
    r = vcommon.tlc("Fam", "Fam_terminal.cfg", env={"FAMILY": "terminal", "SAMPLE": str(smp), "OFFSET": str(vcommon.seed() % smp)},
                    workers=vcommon.NCPU, xmx="8g", timeout=3000)
    if not r["ok"]:
        raise ToolError("terminal family enumeration failed:\n" + r["out"][-1500:])
    terms = vcommon.tlc_prints(r["out"], "TERM")
    if len(terms) < 50:
        raise ToolError("coverage hole: terminal family too small (%d)" % len(terms))
    run.add("states", r["distinct"])
    run.add("transitions", r["states"])
    run.cov["terminal_family_from_spec"] = {"finished_games": len(terms), "checkmates": sum(1 for t_ in terms if t_[2]), "sample": "1/%d" % smp,
                                            "exhaustive": smp == 1, "placements_enumerated": r["distinct"]}
    for t_ in terms:
        sessions.append([{"do": "send", "line": "position fen " + t_[1]}, {"do": "go", "line": rng.choice(clocks)}, {"do": "isready"}])
    # ... and finished games in which the side to move still has a man besides its king (pinned / blocked / unable to help)
    smp2 = 40 if q else 2
    r2 = vcommon.tlc("Fam", "Fam_terminal.cfg", env={"FAMILY": "terminal2", "SAMPLE": str(smp2), "OFFSET": str(vcommon.seed() % smp2)},
                     workers=vcommon.NCPU, xmx="8g", timeout=3000)
    if not r2["ok"]:
        raise ToolError("terminal2 family enumeration failed:\n" + r2["out"][-1500:])
    terms2 = vcommon.tlc_prints(r2["out"], "TERM")
    if len(terms2) < 20:
        raise ToolError("coverage hole: terminal2 family too small (%d)" % len(terms2))
    run.add("states", r2["distinct"])
    run.add("transitions", r2["states"])
    run.cov["terminal_family_with_a_man_left"] = {"finished_games": len(terms2), "checkmates": sum(1 for t_ in terms2 if t_[2]), "sample": "1/%d" % smp2}
    for t_ in terms2:
        sessions.append([{"do": "send", "line": "position fen " + t_[1]}, {"do": "go", "line": rng.choice(clocks)}, {"do": "isready"}])
    plan(h, sessions)
    logs = run_sessions(binary, sessions, 4)
    sample_session(run, sessions[0], logs[0])
    totals = validate(run, "C08", "sessions", logs, scripts=sessions, binary=binary)
    if totals.get("terminal_gos", 0) < 5:
        raise ToolError("coverage hole: fewer than 5 go commands in finished games")
    # quiet stretches (as in C09): the search is over at once (forced replies, mate positions), nothing arrives on the channel for
    # hundreds of milliseconds, the answer is due at the deadline all the same - bound plan + 80 ms, reproduced 3 of 3 times
    quiet = []
    for i, p_ in enumerate((FORCED + [x for x in live])[:8 if q else 40]):
        w = [750, 1075, 1400, 900][i % 4]
        quiet.append([{"do": "send", "line": p_}, {"do": "go", "line": "go wtime %d btime %d movestogo 1" % (w, w)}, {"do": "isready"}])
    plan(h, quiet)
    qlogs = run_sessions(binary, quiet, 4)
    qt = validate(run, "C08", "quiet", qlogs, overhead=80, scripts=quiet, binary=binary)
    run.cov["go_after_a_quiet_stretch_bound_80ms"] = qt.get("gos", 0)
    # with the engine's own logging switched on (setoption DebugLogLevel Info): the lines formatted for the log are evaluated
    # only then (a log argument that cannot be computed kills the I/O thread); zero, small and odd clocks, finished games
    scratch = R.trace_dir("C08-logcwd")
    lsessions = []
    for i in range(8 if q else 60):
        steps = [{"do": "send", "line": "setoption name DebugLogLevel value Info"}, {"do": "isready"}, {"do": "send", "line": rng.choice(live + term[:2])}]
        for g in rng.sample(GO_ZERO + clocks[:2] + GO_ODD[:2], 3):
            steps += [{"do": "go", "line": g}, {"do": "isready"}]
        lsessions.append(steps)
    plan(h, lsessions)
    llogs = run_sessions(binary, lsessions, 4, cwd=scratch)
    validate(run, "C08", "logging", llogs, scripts=lsessions, binary=binary)
    shutil.rmtree(scratch, ignore_errors=True)
    run.cov["sessions_with_engine_logging_on"] = len(lsessions)
    model_walleye(run, tier)
    run.cov["rule"] = ("finished games (checkmates / stalemates from the generators and fixed ones) and live positions x clocks with movestogo >= 1; each go must be "
                       "answered (null move iff Chess!Legal is empty) within slice + %d ms, then isready -> readyok, then a further position / go is served; two "
                       "go in a row after mate-in-one positions (the engine's own move may end the game); liveness go ~> bestmove model-checked in Walleye.tla" % OVERHEAD_MS)
    run.assumptions.append("upper timing bounds depend on the machine; a late answer is reported only when reproduced 3/3 in isolation")
    return run.finish()


def go_grid(rng, n_random):
    clocks = [-1000, -1, 0, 1, 99, 100, 101, 102, 105, 110, 199, 200, 1000, 59999, 60000, 1000000, 200000000]
    incs = [-5, 0, 1, 2, 100, 1000, 100000]
    mtgs = [None, 1, 2, 29, 30, 31, 40, 1000]
    lines = []
    for c in clocks:
        for i in incs:
            for m in mtgs:
                other_c = rng.choice(clocks)
                other_i = rng.choice(incs)
                parts = [("wtime", c), ("winc", i), ("btime", other_c), ("binc", other_i)]
                if m is not None:
                    parts.append(("movestogo", m))
                rng.shuffle(parts)
                toks = ["go"]
                for k, v in parts:
                    if rng.random() < 0.15:
                        toks.append(rng.choice(["ponder", "infinite", "foo", "searchmoves"]))
                    toks += [k, str(v)]
                lines.append(" ".join(toks))
                parts = [("btime", c), ("binc", i), ("wtime", other_c), ("winc", other_i)] + ([("movestogo", m)] if m is not None else [])
                rng.shuffle(parts)
                lines.append("go " + " ".join("%s %d" % kv for kv in parts))
    for _ in range(n_random):
        parts = []
        for k in ("wtime", "btime", "winc", "binc"):
            if rng.random() < 0.8:
                parts.append((k, rng.choice([rng.randint(-200, 400), rng.randint(0, 100000), rng.randint(0, 200000000)])))
        if rng.random() < 0.6:
            parts.append(("movestogo", rng.randint(1, 200)))
        rng.shuffle(parts)
        lines.append("go " + " ".join("%s %d" % kv for kv in parts))
    return lines


def slice_proof(run, code_follows_formula):
    """SliceProof.tla: the transcribed formula meets the contract for every integer clock / increment (Apalache, unbounded);
    the pinned commit's formula does not.  Says something about the code only as far as the recorded slices equal the formula."""
    t0 = time.time()
    ok = vcommon.apalache("SliceProof", ["--cinit=CInit", "--inv=Contract", "--length=0"], timeout=600)
    pinned = vcommon.apalache("SliceProof", ["--cinit=CInitPinned", "--inv=Contract", "--length=0"], timeout=600)
    if ok != "NoError" or pinned != "Error":
        raise ToolError("SliceProof.tla: transcribed formula %s, pinned variant %s (expected NoError / Error)" % (ok, pinned))
    run.cov["unbounded_formula_argument"] = {"module": "SliceProof.tla (Apalache, clock and increment over all integers, movestogo 1..100000)",
                                             "transcribed_formula_meets_contract": True, "pinned_formula_meets_contract": False,
                                             "applies_to_this_tree": bool(code_follows_formula), "wall_s": round(time.time() - t0, 1)}


def big_slices(run, h, rng, n):
    """Clocks beyond TLC's 32-bit integers (2^31 .. 2^40 ms): the engine's parse + slice on generated go lines, the contract
    checked by Apalache (unbounded integers) on a generated module of literal events."""
    lines = []
    for _ in range(n):
        c = rng.choice([2 ** 31, 2 ** 31 + 1, 2 ** 32, 2 ** 33 + 12345, 2 ** 36 - 1, 2 ** 40, rng.randint(2 ** 31, 2 ** 40)])
        other = rng.choice([0, 50, 10 ** 6, rng.randint(2 ** 31, 2 ** 40)])
        inc = rng.choice([0, 1, 1000, 2 ** 33])
        m = rng.choice([None, 1, 2, 29, 30, 31, 40, 100])
        parts = [("wtime", c), ("btime", other), ("winc", inc), ("binc", rng.choice([0, 7]))] if rng.random() < 0.5 else \
                [("btime", c), ("wtime", other), ("binc", inc), ("winc", rng.choice([0, 7]))]
        if m is not None:
            parts.append(("movestogo", m))
        rng.shuffle(parts)
        lines.append("go " + " ".join("%s %d" % kv for kv in parts))
    d = R.trace_dir("C09-big")
    json.dump(lines, open(os.path.join(d, "in.json"), "w"))
    vcommon.run_harness(h, ["slices", "--in", os.path.join(d, "in.json"), "--out", os.path.join(d, "all.ndjson")])
    evs = [json.loads(l) for l in open(os.path.join(d, "all.ndjson"))]
    recs = []
    for e in evs:
        if e.get("panic"):
            run.violation("panic:" + e["line"].replace(" ", "_"), "parse_go_command panicked on a well-formed go", {"type": "slice", "line": e["line"]})
            continue
        x = e["exact"]
        mtg = e["parsed"]["movestogo"] or 30
        recs.append("[wc |-> %s, wi |-> %s, bc |-> %s, bi |-> %s, mtg |-> %d, sw |-> %s, sb |-> %s, swa |-> %s, sba |-> %s]" % (
            x["wtime"], x["winc"], x["btime"], x["binc"], mtg, x["slice_w"], x["slice_b"], x["slice_w_alt"], x["slice_b_alt"]))
    # modules of at most 100 literal events each (Apalache's cost grows faster than linearly with the literal count)
    def one_chunk(ci):
        name = "BigSlices_gen%d_%d" % (os.getpid(), ci)
        mod = os.path.join(vcommon.SPEC, name + ".tla")
        chunk = recs[ci * 100:(ci + 1) * 100]
        with open(mod, "w") as f:
            f.write("---- MODULE %s ----\n\\* generated by the C09 check: literal slice events with values beyond 32 bits\nEXTENDS SliceContract, Sequences\n" % name)
            f.write("\\* @type: Seq({wc: Int, wi: Int, bc: Int, bi: Int, mtg: Int, sw: Int, sb: Int, swa: Int, sba: Int});\nEvents == <<\n  " + ",\n  ".join(chunk) + "\n>>\n")
            f.write("VARIABLE\n  \\* @type: Int;\n  i\nInit == i = 1\nNext == i' = IF i < Len(Events) THEN i + 1 ELSE i\n")
            f.write("\\* @type: ({wc: Int, wi: Int, bc: Int, bi: Int, mtg: Int, sw: Int, sb: Int, swa: Int, sba: Int}) => Bool;\n")
            f.write("Ok(e) == /\\ SliceOK(e.wc, e.wi, e.mtg, e.sw) /\\ SliceOK(e.bc, e.bi, e.mtg, e.sb) /\\ e.swa = e.sw /\\ e.sba = e.sb\n")
            f.write("AllOk == \\A j \\in DOMAIN Events : Ok(Events[j])\n====\n")
        try:
            return vcommon.apalache(name, ["--init=Init", "--inv=AllOk", "--length=0"])
        finally:
            os.remove(mod)
    from concurrent.futures import ThreadPoolExecutor as TPE
    nchunks = (len(recs) + 99) // 100
    with TPE(max_workers=6) as ex:
        outs = list(ex.map(one_chunk, range(nchunks)))
    outcome = "NoError" if all(o == "NoError" for o in outs) else "Error"
    if outcome != "NoError":
        # locate the failing events one by one (python integers are unbounded too; this only names the culprit)
        for e in evs:
            if e.get("panic"):
                continue
            run.violation("big-slice:" + e["line"].replace(" ", "_"), "slice contract violated beyond 32 bits (Apalache): " + e["line"],
                          {"type": "slice", "line": e["line"]})
            break
    run.cov["big_value_slice_events_apalache"] = len(recs)
    shutil.rmtree(d, ignore_errors=True)


def c09(tier, replay):
    run = mk("C09", tier, replay)
    if replay:
        spec = json.load(open(replay))["replay"]
        if spec.get("type") == "session":
            return replay_session(run, "C09", spec)
    rng = random.Random(vcommon.seed() * 31 + 9)
    h = vcommon.build_harness()
    q = tier == "quick"
    # pure part: the slice function on an edge grid + random values
    lines = [json.load(open(replay))["replay"]["line"]] if replay else go_grid(rng, 2000 if q else 100000)
    d = R.trace_dir("C09-grid")
    json.dump(lines, open(os.path.join(d, "in.json"), "w"))
    vcommon.run_harness(h, ["slices", "--in", os.path.join(d, "in.json"), "--out", os.path.join(d, "all.ndjson")])
    evs = [json.loads(l) for l in open(os.path.join(d, "all.ndjson"))]
    n = vcommon.NCPU
    fs = [open(os.path.join(d, "uci%02d.ndjson" % i), "w") for i in range(n)]
    for i, e in enumerate(evs):
        if e.get("panic"):
            run.violation("panic:" + e["line"].replace(" ", "_"), "parse_go_command panicked on a well-formed go", {"type": "slice", "line": e["line"]})
            continue
        fs[i % n].write(json.dumps(e) + "\n")
    for f in fs:
        f.close()
    os.remove(os.path.join(d, "in.json"))
    os.remove(os.path.join(d, "all.ndjson"))
    paths = sorted(glob.glob(os.path.join(d, "uci*.ndjson")))
    results = vcommon.validate_shards("TraceUci", "TraceUci.cfg", paths, env_extra={"OVERHEAD": str(OVERHEAD_MS)})
    nsl = same = other = 0
    for r in results:
        run.add("states", r["distinct"])
        run.add("transitions", max(r["states"] - 1, 0))
        nsl += r["verdict"]["cnt"]["slices"]
        same += r["verdict"]["cnt"]["formula_same"]
        other += r["verdict"]["cnt"]["formula_other"]
        for prop, line, code, detail in r["verdict"]["bad"]:
            if prop == "C09":
                e = vcommon.read_event(r["file"], line)
                run.violation("%s:%s" % (code, e["line"].replace(" ", "_")), "%s: %s" % (code, detail), {"type": "slice", "line": e["line"]})
    run.cov["slice_events"] = nsl
    run.cov["slices_equal_to_transcribed_formula"] = {"equal": same, "different": other}
    run.sample({"go": evs[0]["line"], "slice_white": evs[0].get("slice_w"), "slice_black": evs[0].get("slice_b")})
    shutil.rmtree(d, ignore_errors=True)
    if replay:
        return run.finish()
    big_slices(run, h, rng, 150 if q else 600)
    slice_proof(run, other == 0)
    go_sequences(run, tier)
    # timed part: the real delay against the plan (the colour decides which clock counts)
    binary = vcommon.build_binary(False)
    live, _ = pool(h, vcommon.seed() + 2, 6, 2, 0, 6)
    timed = ["go wtime 350 btime 1100 movestogo 1", "go wtime 1100 btime 350 movestogo 1", "go wtime 600 btime 2100 movestogo 2", "go wtime 2100 btime 600 movestogo 2",
             "go wtime 60 btime 60 winc 300 binc 40", "go wtime 90 btime 90 winc 40 binc 300", "go wtime 6100 btime 9100", "go wtime 475 btime 475 movestogo 1",
             "go wtime 100 btime 100 winc 0 binc 0", "go wtime 150 btime 150 movestogo 1"]
    sessions = []
    for i in range(12 if q else 100):
        sessions.append([{"do": "send", "line": rng.choice(live)}, {"do": "go", "line": rng.choice(timed)}, {"do": "go", "line": rng.choice(timed)}])
    # positions whose search is over long before the deadline (mate in one, forced replies): the answer still waits for it
    early, _ = pool(h, vcommon.seed() + 9, 0, 6 if q else 40, 0, 0, 8)
    for p_ in (early[:6 if q else 40] + FORCED[:3]):
        sessions.append([{"do": "send", "line": p_}, {"do": "go", "line": rng.choice(["go wtime 475 btime 475 movestogo 1", "go wtime 350 btime 350 movestogo 1"])}])
    plan(h, sessions)
    logs = run_sessions(binary, sessions, 4)
    sample_session(run, sessions[0], logs[0])
    totals = validate(run, "C09", "timed", logs, also=("C08",), scripts=sessions, binary=binary)
    # quiet stretches: the search is over long before the deadline (mate in one, forced reply), nothing arrives on the channel for
    # hundreds of milliseconds, and the answer must still go out AT the deadline - a waiting loop that naps longer the longer
    # nothing happens (back-off) answers late by up to its longest nap, which the general 250 ms bound does not see.  Six plans
    # spread between 300 and 1040 ms, bound plan + 80 ms, a late answer must reproduce 3 of 3 times in isolation
    quiet = []
    for i, p_ in enumerate((early + FORCED)[:12 if q else 60]):
        w = [475, 750, 900, 1075, 1225, 1400][i % 6]
        quiet.append([{"do": "send", "line": p_}, {"do": "go", "line": "go wtime %d btime %d movestogo 1" % (w, w)}])
    plan(h, quiet)
    qlogs = run_sessions(binary, quiet, 4)
    qt = validate(run, "C09", "quiet", qlogs, also=("C08",), overhead=80, scripts=quiet, binary=binary)
    run.cov["timed_go_after_a_quiet_stretch_bound_80ms"] = qt.get("gos", 0)
    # C09 owns both directions of the timing claim
    run.cov["timed_go"] = totals.get("gos", 0) + qt.get("gos", 0)
    model_walleye(run, tier)
    run.cov["rule"] = ("pure: go lines on an edge grid (clock in {-1000..2*10^8} x increment x movestogo in {absent,1,2,29,30,31,40,1000} x both colours, the other "
                       "side's values varied, keyword order permuted, unknown tokens interleaved) + random lines through parse_go_command and calculate_time_slice; "
                       "TLC re-parses the tokens (TimeControl!ParseGo) and checks SliceOK for both colours and independence from the other side's values; timed: "
                       "go->bestmove delay of the real binary within [plan, plan + %d ms] with clocks whose colour mix-up would move the delay by >= 250 ms" % OVERHEAD_MS)
    run.assumptions.append("values beyond 2*10^8 ms are outside TLC's 32-bit integers: the range 2^31..2^40 ms is checked with Apalache on a generated module; beyond 2^40 the engine's f64 arithmetic is not exact and is not judged")
    return run.finish()


GAME_GO = ["go", "go wtime 250 btime 250 movestogo 1", "go wtime 0 btime 0", "go wtime 220 btime 220 movestogo 1"]


def game_sessions(rng, live, n, prefix, plies=5, golines=None):
    """n sessions that play a GUI-style game each (see uci_driver `game`), starting from pool positions"""
    games, shard = [], []
    # positions in which both sides can still castle and capture at once (what an ordering value carried over from the
    # engine's own last move would promote: castling and en-passant successors inherit it)
    rich = ["position fen r3k2r/pppq1ppp/2npbn2/2b1p3/2B1P3/2NPBN2/PPPQ1PPP/R3K2R w KQkq - 0 1",
            "position fen r3k2r/ppp2ppp/2n1bn2/3pp3/3PP3/2N1BN2/PPP2PPP/R3K2R w KQkq - 0 1",
            "position startpos moves e2e4 e7e5 g1f3 g8f6 f1c4 f8c5 d2d3 d7d6",
            "position fen r3k2r/8/8/3pP3/3Pp3/8/8/R3K2R w KQkq d6 0 1"]
    for gi in range(n):
        cmd = "position startpos" if gi % 3 == 0 else (rich[(gi // 3) % len(rich)] if gi % 3 == 1 else rng.choice(live))
        parts = cmd.split(" moves ")
        gl = list(golines or GAME_GO)
        rng.shuffle(gl)
        games.append([{"do": "game", "start": parts[0], "premoves": parts[1].split() if len(parts) == 2 else [], "plies": plies,
                       "go": gl, "opp": "pv" if gi % 2 == 0 else "engine", "probe_prefix": "%s%d" % (prefix, gi)}])
        shard.append(gi)
    return games, shard


def fresh_probes(glogs, gshard):
    """every (position, go) request of the recorded games as a session of its own (fresh process), same probe id"""
    fresh, shard = [], []
    for evs, sh in zip(glogs, gshard):
        cur = None
        for e in evs:
            if e["ev"] == "in" and "position" in e:
                cur = e["line"]
            elif e["ev"] == "in" and e.get("go") and e.get("probe") and cur:
                fresh.append([{"do": "send", "line": cur}, {"do": "go", "line": e["line"], "extra": {"probe": e["probe"], "timed": bool(e.get("timed"))}}])
                shard.append(sh)
    return fresh, shard


def c16(tier, replay):
    run = mk("C16", tier, replay)
    if replay:
        return replay_session(run, "C16", json.load(open(replay))["replay"])
    rng = random.Random(vcommon.seed() * 31 + 16)
    h = vcommon.build_harness()
    binary = vcommon.build_binary(False)
    q = tier == "quick"
    live, term = pool(h, vcommon.seed() + 3, 10 if q else 50, 4 if q else 20, 6 if q else 30, 10 if q else 60, 2)
    nprobe = 16 if q else 150
    sessions, shard = [], []
    for pi in range(nprobe):
        cmd = rng.choice(live)
        timed = pi % 4 == 3
        goline = rng.choice(["go wtime 700 btime 700 movestogo 2", "go wtime 475 btime 475 movestogo 1"]) if timed else rng.choice(GO_ZERO)
        probe = [{"do": "send", "line": cmd}, {"do": "go", "line": goline, "extra": {"probe": "p%d" % pi, "timed": timed}}]
        # (a) fresh process, (b) repeated, (c..) after prefixes
        variants = [[], list(probe)]
        # another game with searches
        pre = [{"do": "send", "line": rng.choice(live)}, {"do": "go", "line": rng.choice(GO_SMALL)}, {"do": "go", "line": rng.choice(GO_ZERO)}]
        variants.append(pre)
        # the same game sent move by move, as a GUI does, with a search after each prefix
        toks = cmd.split(" moves ")
        if len(toks) == 2:
            mv = toks[1].split()
            pre2 = []
            for j in range(0, len(mv), max(1, len(mv) // 4)):
                pre2.append({"do": "send", "line": toks[0] + (" moves " + " ".join(mv[:j]) if j else "")})
                pre2.append({"do": "go", "line": rng.choice(GO_ZERO + GO_SMALL)})
            variants.append(pre2)
            # only the first move of the probe's game before (a record that remembers the last position it was given)
            variants.append([{"do": "send", "line": toks[0] + " moves " + mv[0]}])
            variants.append([{"do": "send", "line": toks[0] + " moves " + mv[0]}, {"do": "go", "line": rng.choice(GO_ZERO)}])
        # ucinewgame / setoption / ignored lines / a finished game
        pre3 = [{"do": "send", "line": "ucinewgame"}, {"do": "send", "line": rng.choice(live)}, {"do": "send", "line": "setoption name Hash value 16"},
                {"do": "send", "line": rng.choice(GARBAGE)}, {"do": "go", "line": rng.choice(GO_SMALL)}, {"do": "send", "line": "ucinewgame"}]
        if term:
            pre3 += [{"do": "send", "line": term[0]}, {"do": "go", "line": "go"}]
        variants.append(pre3)
        # a long history with repetitions before (the record of an earlier game must not leak)
        pre4 = [{"do": "send", "line": "position startpos moves g1f3 g8f6 f3g1 f6g8 g1f3 g8f6 f3g1 f6g8"}, {"do": "go", "line": rng.choice(GO_ZERO)},
                {"do": "send", "line": cmd}, {"do": "go", "line": rng.choice(GO_SMALL)}]
        variants.append(pre4)
        for v in variants:
            sessions.append(v + probe)
            shard.append(pi)
    # a bare position probed after ITS OWN game with repetitions (a record that survives the position command changes the
    # search of positions reachable from the probe): timed probes, compared with a fresh process
    own = [c for c in live if " moves " in c and c.startswith("position fen")]
    for j, c in enumerate(own[: (6 if q else 40)]):
        base = c.split(" moves ")[0]
        pid_ = "own%d" % j
        probe = [{"do": "send", "line": base}, {"do": "go", "line": "go wtime 600 btime 600 movestogo 2", "extra": {"probe": pid_, "timed": True}}]
        for pre in ([], [{"do": "send", "line": c}, {"do": "go", "line": rng.choice(GO_ZERO)}],
                    [{"do": "send", "line": c}, {"do": "send", "line": "ucinewgame"}]):
            sessions.append(pre + probe)
            shard.append(nprobe + j)
    # a game that walks out and home again, probed after a command that ended in the position its FIRST move leads to (whatever
    # the record remembers beside the table - a last-written entry, a cached count - survives a clear that only empties the map)
    for ci, cyc in enumerate(["g1f3 g8f6 f3g1 f6g8", "b1c3 b8c6 c3b1 c6b8", "g1f3 b8c6 f3g1 c6b8"]):
        probe = [{"do": "send", "line": "position startpos moves " + cyc},
                 {"do": "go", "line": "go wtime 475 btime 475 movestogo 1", "extra": {"probe": "cyc%d" % ci, "timed": True}}]
        first = "position startpos moves " + cyc.split()[0]
        for pre in ([], [{"do": "send", "line": first}], [{"do": "send", "line": first}, {"do": "go", "line": "go"}, {"do": "send", "line": "ucinewgame"}]):
            sessions.append(pre + probe)
            shard.append(nprobe + 40 + ci)
    # probes whose game record contains positions that have occurred twice and can be entered again (whatever the search makes
    # of a repetition must not depend on which side an EARLIER go of the session was asked to move for), timed, fresh and after
    # a go with the other side to move (the probe's own game one move short / another position)
    scen_path = os.path.join(vcommon.BUILD, "scen-C16-%d.json" % os.getpid())
    vcommon.run_harness(h, ["scen", "--out", scen_path, "--seed", vcommon.seed() + 16, "--small", 0, "--mate", 0, "--rep", 5 if q else 30, "--game", 0])
    reps = [x["cmd"] for x in json.load(open(scen_path)) if x["tag"] == "rep"]
    os.remove(scen_path)
    for ri, cmd in enumerate(reps):
        probe = [{"do": "send", "line": cmd}, {"do": "go", "line": "go wtime 475 btime 475 movestogo 1", "extra": {"probe": "rep%d" % ri, "timed": True}}]
        short = cmd.rsplit(" ", 1)[0]
        for pre in ([], [{"do": "send", "line": short}, {"do": "go", "line": rng.choice(GO_SMALL)}],
                    [{"do": "send", "line": "ucinewgame"}, {"do": "send", "line": short}, {"do": "go", "line": rng.choice(GO_ZERO)}, {"do": "send", "line": rng.choice(live)}]):
            sessions.append(pre + probe)
            shard.append(nprobe + 44 + ri % 6)
    run.cov["probes_with_a_repetition_on_offer"] = len(reps)
    # a forced reply searched with a long allowance right before a timed probe (a search that is answered early must not keep
    # talking into the next request)
    for fi, f in enumerate(FORCED[:3 if q else 8]):
        cmd = live[fi % len(live)]
        probe = [{"do": "send", "line": cmd}, {"do": "go", "line": "go wtime 700 btime 700 movestogo 2", "extra": {"probe": "fr%d" % fi, "timed": True}}]
        for pre in ([], [{"do": "send", "line": f}, {"do": "go", "line": "go wtime 1100 btime 1100 movestogo 1"}]):
            sessions.append(pre + probe)
            shard.append(nprobe + 30 + fi % 6)
    # LONG prefixes: a game with repeated positions, then 2^k - 1 / 2^k further position commands (k = 6..8), then the probe from
    # the position that game started in - per-game state that is "cleared" by bumping a small counter comes back when the
    # counter wraps (an epoch tag inside the repetition record, a generation byte in a cache)
    shuffle = "position startpos moves g1f3 g8f6 f3g1 f6g8 g1f3 g8f6 f3g1 f6g8"
    longprobe = [{"do": "send", "line": "position startpos"}, {"do": "go", "line": "go wtime 475 btime 475 movestogo 1", "extra": {"probe": "wrap", "timed": True}}]
    sessions.append(list(longprobe))
    shard.append(nprobe + 43)
    for n in ((62, 63, 126, 127, 254, 255) if q else (30, 31, 62, 63, 64, 126, 127, 128, 254, 255, 256, 510, 511, 1022, 1023)):
        fill = [{"do": "send", "line": live[i % len(live)]} for i in range(n)]
        sessions.append([{"do": "send", "line": shuffle}, {"do": "go", "line": "go"}] + fill + longprobe)
        shard.append(nprobe + 43)
    # MANY earlier go commands (instant ones), then a probe whose plan sits right at the zero / one millisecond boundary of the time
    # policy without movestogo (clock 104 .. 118 ms: a fresh engine plans 0 ms and hands back its first move at once; 119 .. 137 ms:
    # 1 ms): whatever counts the go commands or moves of a session (a "moves played so far" estimate that shortens the default
    # horizon, an adaptive overhead) moves the plan across that boundary and with it the reply of the zero-allowance probe
    for bi, (npre, clk) in enumerate(((13, 118), (26, 110), (40, 104), (26, 137)) if q else
                                     ((8, 118), (13, 118), (20, 112), (26, 110), (30, 118), (40, 104), (64, 118), (26, 137), (40, 125), (100, 118))):
        cmd = live[bi % len(live)]
        probe = [{"do": "send", "line": cmd}, {"do": "go", "line": "go wtime %d btime %d" % (clk, clk), "extra": {"probe": "manygo%d" % bi, "timed": clk > 118}}]
        pre = []
        for i in range(npre):
            pre += [{"do": "send", "line": live[(bi + i) % len(live)]}, {"do": "go", "line": "go wtime 0 btime 0"}]
        sessions.append(list(probe))
        shard.append(nprobe + 36 + bi % 4)
        sessions.append(pre + probe)
        shard.append(nprobe + 36 + bi % 4)
    # probes whose move list contains promotions of every kind (a replayed under-promotion must not depend on anything
    # but its letter), asked of a fresh process and of one whose logging was switched on before (setoption DebugLogLevel
    # Info is the one option the engine has; whatever is formatted for the log is only evaluated then)
    promo = ["position fen 6k1/4P3/8/8/8/8/8/K7 w - - 0 1 moves e7e8n", "position fen 6k1/4P3/8/8/8/8/8/K7 w - - 0 1 moves e7e8r g8g7",
             "position fen 6k1/4P3/8/8/8/8/8/K7 w - - 0 1 moves e7e8b g8f7", "position fen 6k1/4P3/8/8/8/8/8/K7 w - - 0 1 moves e7e8q g8g7",
             "position fen k7/8/8/8/8/8/4p3/6K1 b - - 0 1 moves e2e1n", "position fen k7/8/8/8/8/8/4p3/6K1 b - - 0 1 moves e2e1r g1g2",
             "position fen 3r2k1/4P3/8/8/8/8/8/K7 w - - 0 1 moves e7d8n", "position fen k7/8/8/8/8/8/4p3/3R2K1 b - - 0 1 moves e2d1b g1f2"]
    logon = [{"do": "send", "line": "setoption name DebugLogLevel value Info"}, {"do": "isready"}]
    lsessions, lshard = [], []
    for li, cmd in enumerate(promo + live[:6]):
        for goline, timed in (("go", False), ("go wtime 475 btime 475 movestogo 1", True)):
            probe = [{"do": "send", "line": cmd}, {"do": "go", "line": goline, "extra": {"probe": "lg%d%s" % (li, "t" if timed else "z"), "timed": timed}}]
            sessions.append(list(probe))
            shard.append(nprobe + 50 + li)
            lsessions.append(logon + [{"do": "send", "line": rng.choice(live)}, {"do": "go", "line": rng.choice(GO_ZERO)}] + probe)
            lshard.append(nprobe + 50 + li)
    plan(h, sessions)
    logs = run_sessions(binary, sessions, 6)
    scratch = R.trace_dir("C16-logcwd")
    plan(h, lsessions)
    llogs = run_sessions(binary, lsessions, 6, cwd=scratch)
    shutil.rmtree(scratch, ignore_errors=True)
    sessions += lsessions
    logs += llogs
    shard += lshard
    run.cov["probes_with_engine_logging_on"] = len(lsessions)
    # GUI-style games (position <game so far> / go / reply / ...; the reply is the one the engine predicted or another
    # process's move): every go of the game is a probe, asked again of a fresh process afterwards
    games, gshard = game_sessions(rng, live, 6 if q else 36, "gm")
    plan(h, games)
    glogs = run_sessions(binary, games, 4)
    fresh, fshard = fresh_probes(glogs, gshard)
    plan(h, fresh)
    flogs = run_sessions(binary, fresh, 6)
    base = max(shard) + 1
    sessions += games + fresh
    logs += glogs + flogs
    shard += [base + x for x in gshard + fshard]
    run.cov["gui_style_games"] = {"games": len(games), "go_commands_probed_again_fresh": len(fresh)}
    if len(fresh) < 2 * len(games):
        raise ToolError("coverage hole: the GUI-style games did not get going")
    sample_session(run, sessions[2], logs[2])
    totals = validate(run, "C16", "probes", logs, shard_of=lambda i: shard[i], scripts=sessions, binary=binary)
    if totals.get("probes", 0) < nprobe * 3:
        raise ToolError("coverage hole: probes not executed")
    run.cov["probe_requests"] = nprobe
    run.cov["probe_runs"] = totals.get("probes", 0)
    model_walleye(run, tier)
    run.cov["rule"] = ("each probe request (position X + go) runs in a fresh process, twice in a row, and after prefixes: another game with searches, the same game "
                       "sent move by move with searches, ucinewgame / setoption / ignored lines / a finished game, a game with a long repetition history; GUI-style games "
                       "(position <game so far> / go / the reply the engine predicted or another process's move / ...) whose every go is asked again of a fresh process; TraceUci "
                       "keeps memo[request] and requires the identical bestmove under a zero allowance and prefix-related (depth, nodes, score, first pv move) "
                       "sequences under a timed one; Walleye.tla: after Position the board and record are functions of the command (RecordFresh)")
    return run.finish()


def odd_go_events(run, h, rng, n):
    """C17, pure part: go lines with unknown tokens at the boundaries of their <keyword value> pairs, next to the same go
    without them; TLC checks (by its own scan) that both are the same go and that the engine parsed and planned them alike."""
    canon = ["go wtime 300 btime 300 movestogo 1", "go wtime 60000 btime 55000 winc 1000 binc 1000", "go btime 400 wtime 500 movestogo 4",
             "go winc 50 binc 70 wtime 90 btime 80", "go wtime 200000 btime 100 movestogo 40", "go wtime 1000 btime 1000", "go movestogo 7 binc 3 winc 2 btime 5000 wtime 6000"]
    unknown = [["ponder"], ["infinite"], ["foo"], ["searchmoves", "e2e4"], ["searchmoves", "e2e4", "d2d4", "g1f3"], ["depth", "5"], ["nodes", "1000"], ["mate", "3"],
               ["movetime", "500"], ["depth"], ["xyzzy", "7", "q"], ["\u00e9"], ["Wtime", "9"], ["wtimes", "9"]]
    items = []
    for _ in range(n):
        c = rng.choice(canon)
        toks = c.split()
        pairs = [toks[i:i + 2] for i in range(1, len(toks), 2)]
        slots = list(range(len(pairs) + 1))
        ins = {}
        for _ in range(rng.randint(1, 3)):
            ins.setdefault(rng.choice(slots), []).extend(rng.choice(unknown))
        out = ["go"]
        for i in range(len(pairs) + 1):
            out += ins.get(i, [])
            if i < len(pairs):
                out += pairs[i]
        items.append({"line": " ".join(out), "canon": c})
    d = R.trace_dir("C17-oddgo")
    json.dump(items, open(os.path.join(d, "in.json"), "w"))
    vcommon.run_harness(h, ["slices", "--in", os.path.join(d, "in.json"), "--out", os.path.join(d, "all.ndjson")])
    evs = [json.loads(l) for l in open(os.path.join(d, "all.ndjson"))]
    nsh = 4
    fs = [open(os.path.join(d, "uci%02d.ndjson" % i), "w") for i in range(nsh)]
    for i, e in enumerate(evs):
        if e.get("panic"):
            if not e.get("canon_panic"):
                run.violation("unknown-go-token-panics:" + e["line"].replace(" ", "_"), "the go parser panics on unknown tokens: " + e["line"], {"type": "oddgo", "line": e["line"]})
            continue
        fs[i % nsh].write(json.dumps(e) + "\n")
    for f in fs:
        f.close()
    os.remove(os.path.join(d, "in.json"))
    os.remove(os.path.join(d, "all.ndjson"))
    results = vcommon.validate_shards("TraceUci", "TraceUci.cfg", sorted(glob.glob(os.path.join(d, "uci*.ndjson"))), env_extra={"OVERHEAD": str(OVERHEAD_MS)})
    for r in results:
        run.add("states", r["distinct"])
        run.add("transitions", max(r["states"] - 1, 0))
        for prop, line, code, detail in r["verdict"]["bad"]:
            e = vcommon.read_event(r["file"], line)
            if prop == "TOOL":
                raise ToolError("odd go events: %s %s" % (code, detail))
            if prop == "C17":
                run.violation("%s:%s" % (code, e["line"].replace(" ", "_")), "%s: %s" % (code, detail), {"type": "oddgo", "line": e["line"]})
            else:
                run.foreign(prop, code, detail)
    run.cov["go_lines_with_unknown_tokens_vs_canonical"] = len(evs)
    shutil.rmtree(d, ignore_errors=True)


def mangle(rng, line):
    """the same command with surplus / odd whitespace (runs of blanks and tabs, leading and trailing, CR before the LF,
    vertical tab and form feed as separators)"""
    seps = [" ", "  ", "\t", " \t ", "   ", "\t\t", "\x0b", " \x0c "]
    toks = line.split()
    out = rng.choice(["", " ", "\t", "  "])
    for i, tk in enumerate(toks):
        out += tk
        out += rng.choice(seps) if i + 1 < len(toks) else rng.choice(["", " ", "\t", "\r", " \r", "\x0b"])
    return out


def c17(tier, replay):
    run = mk("C17", tier, replay)
    if replay:
        return replay_session(run, "C17", json.load(open(replay))["replay"])
    rng = random.Random(vcommon.seed() * 31 + 17)
    h = vcommon.build_harness()
    binary = vcommon.build_binary(False)
    q = tier == "quick"
    live, _ = pool(h, vcommon.seed() + 4, 8, 4, 3, 8)
    sessions, shard = [], []
    # garbage interleaved with well-formed commands; a probe at the end must give the same reply as without the garbage
    nprobe = 10 if q else 80
    for pi in range(nprobe):
        cmd = rng.choice(live)
        goline = rng.choice(GO_ZERO)
        probe = [{"do": "send", "line": cmd}, {"do": "go", "line": goline, "extra": {"probe": "g%d" % pi}}]
        clean = [{"do": "send", "line": cmd}, {"do": "isready"}]
        sessions.append(clean + probe)
        shard.append(pi)
        for _ in range(2):
            noisy = []
            for st in [{"do": "send", "line": cmd}, {"do": "isready"}]:
                for _ in range(rng.randint(1, 3)):
                    noisy.append({"do": "send", "line": rng.choice(GARBAGE)})
                noisy.append(st)
            noisy.append({"do": "send", "line": rng.choice(GARBAGE)})
            noisy.append({"do": "isready"})
            # garbage between position and go
            sessions.append(noisy + [{"do": "send", "line": cmd}, {"do": "send", "line": rng.choice(GARBAGE)},
                                     {"do": "go", "line": goline, "extra": {"probe": "g%d" % pi}}, {"do": "isready"}])
            shard.append(pi)
    # the probe written with surplus / odd whitespace must give the reply of the plainly written one (same probe id)
    wsp = []
    for pi, sess in [(shard[i], sessions[i]) for i in range(len(sessions)) if len(sessions[i]) == 4 and sessions[i][1].get("do") == "isready"][:nprobe]:
        cmd, goline = sess[0]["line"], sess[3]["line"]
        wsp.append((pi, [{"do": "isready", "line": mangle(rng, "isready")}, {"do": "send", "line": mangle(rng, cmd)}, {"do": "isready", "line": mangle(rng, "isready")},
                         {"do": "go", "line": mangle(rng, goline), "extra": {"probe": "g%d" % pi}}, {"do": "isready", "line": "isready\x0b"}]))
    for pi, sess in wsp:
        sessions.append(sess)
        shard.append(pi)
    run.cov["commands_with_odd_whitespace"] = len(wsp)
    # ONE unknown line that is longer than any buffer an implementation might read lines into (4 KiB .. 64 KiB, around the
    # powers of two), ending in the text of a command: it is still one unknown word and must be ignored as a whole - no
    # second readyok, no exit, no change of the board (the probe behind it gives the reply of the clean session)
    nlong = 0
    for k, (L, word) in enumerate([(L, w) for L in ((4096, 8192, 65536) if q else (1024, 4095, 4096, 8191, 8192, 8193, 16384, 32768, 65536, 262144))
                                   for w in ("isready", "quit", "position startpos moves e2e4", " isready")]):
        clean_s = sessions[3 * (k % nprobe)]
        cmd, goline = clean_s[0]["line"], clean_s[3]["line"]
        pad = L - (1 if word.startswith(" ") else 0)
        sessions.append([{"do": "send", "line": cmd}, {"do": "isready"}, {"do": "send", "line": "x" * pad + word.replace(" ", "y")}, {"do": "isready"},
                         {"do": "go", "line": goline, "extra": {"probe": "g%d" % (k % nprobe)}}, {"do": "isready"}, {"do": "quit"}])
        shard.append(k % nprobe)
        nlong += 1
    run.cov["very_long_unknown_lines"] = nlong
    # LONG RUNS of lines the engine does not understand (unknown words, blank lines, whitespace) with no known command in
    # between, around the powers of two: a counter of "consecutive protocol errors" that gives up, or a small counter that wraps,
    # shows only there.  Behind the run: isready, the probe (reply of the clean session), isready, quit
    nruns = 0
    for k, n in enumerate((31, 32, 33, 64, 100, 255, 256, 257, 1000) if q else (7, 8, 15, 16, 17, 31, 32, 33, 63, 64, 65, 100, 127, 128, 129, 255, 256, 257, 511, 512, 1000, 1024, 1025, 4096)):
        clean_s = sessions[3 * (k % nprobe)]
        cmd, goline = clean_s[0]["line"], clean_s[3]["line"]
        kind = k % 3
        noise = [(rng.choice(GARBAGE) if kind == 0 else rng.choice(["", " ", "\t", "   "]) if kind == 1 else rng.choice(GARBAGE + ["", "  "])) for _ in range(n)]
        # (an `isready` inside the garbage alphabet would be a known command: the run must not contain one)
        noise = [x if x.split()[:1] not in (["isready"], ["quit"], ["position"], ["go"], ["uci"], ["ucinewgame"], ["setoption"]) else "xyzzy" for x in noise]
        sessions.append([{"do": "send", "line": cmd}, {"do": "isready"}] + [{"do": "send", "line": x} for x in noise] +
                        [{"do": "isready"}, {"do": "go", "line": goline, "extra": {"probe": "g%d" % (k % nprobe)}}, {"do": "isready"}, {"do": "quit"}])
        shard.append(k % nprobe)
        nruns += 1
    run.cov["long_runs_of_unknown_lines"] = nruns
    # unknown tokens inside go
    for g in GO_ODD:
        sessions.append([{"do": "send", "line": rng.choice(live)}, {"do": "go", "line": g}, {"do": "isready"}, {"do": "quit"}])
        shard.append(rng.randint(0, 1000))
    # quit at various points
    for _ in range(6 if q else 40):
        steps = [{"do": "send", "line": rng.choice(GARBAGE)}, {"do": "send", "line": rng.choice(live)}]
        if rng.random() < 0.5:
            steps.append({"do": "go", "line": rng.choice(GO_ZERO + GO_SMALL)})
        steps.append({"do": "quit"})
        sessions.append(steps)
        shard.append(rng.randint(0, 1000))
    # with the engine's own logging switched on (setoption DebugLogLevel Info): every line is then also formatted into the log
    log_sessions = []
    for _ in range(6 if q else 40):
        steps = [{"do": "send", "line": "setoption name DebugLogLevel value Info"}, {"do": "isready"}]
        for _ in range(rng.randint(2, 4)):
            steps.append({"do": "send", "line": rng.choice(LONG_GARBAGE + GARBAGE)})
        steps += [{"do": "isready"}, {"do": "send", "line": rng.choice(live)}, {"do": "send", "line": rng.choice(LONG_GARBAGE)},
                  {"do": "go", "line": rng.choice(GO_ZERO)}, {"do": "isready"}, {"do": "quit"}]
        log_sessions.append(steps)
    # end of input after EVERY prefix of sessions that contain blank and garbage lines
    bases = []
    for _ in range(3 if q else 12):
        bases.append([{"do": "isready"}, {"do": "send", "line": ""}, {"do": "send", "line": rng.choice(live)}, {"do": "send", "line": "   "},
                      {"do": "go", "line": rng.choice(GO_ZERO)}, {"do": "send", "line": rng.choice(GARBAGE)}, {"do": "send", "line": ""}, {"do": "isready"}])
    for b in bases:
        for cut in range(len(b) + 1):
            sessions.append(b[:cut] + [{"do": "eof"}])
            shard.append(rng.randint(0, 1000))
    for b_ in bases[:1]:
        sessions.append([{"do": "send", "line": g} for g in LONG_GARBAGE] + [{"do": "isready"}, {"do": "quit"}])
        shard.append(rng.randint(0, 1000))
    # end of input in the middle of a line: the last command has no line terminator
    for pre in ([], [{"do": "send", "line": rng.choice(live)}], [{"do": "send", "line": ""}, {"do": "isready"}]):
        sessions.append(pre + [{"do": "raw_isready_eof"}])
        shard.append(rng.randint(0, 1000))
    # the GUI disappears (input ends, nobody reads the output) while a go with a real clock is being served: the process
    # must still end (within the slice plus the end-of-input limit), not stay behind spinning
    for _ in range(3 if q else 20):
        sessions.append([{"do": "send", "line": rng.choice(live)}, {"do": "go_nowait", "line": rng.choice(["go wtime 1100 btime 1100 movestogo 1", "go wtime 600 btime 600 movestogo 1"])},
                         {"do": "gone", "pause_ms": rng.choice([5, 60, 200]), "wait_ms": 4000}])
        shard.append(rng.randint(0, 1000))
    # the reader goes away BEFORE the go is written (the very first info line of the search already has nowhere to go)
    for _ in range(2 if q else 10):
        sessions.append([{"do": "send", "line": rng.choice(live)}, {"do": "close_stdout"},
                         {"do": "go_nowait", "line": rng.choice(["go wtime 1100 btime 1100 movestogo 1", "go wtime 475 btime 475 movestogo 1"])},
                         {"do": "gone", "pause_ms": 1, "wait_ms": 4000}])
        shard.append(rng.randint(0, 1000))
    odd_go_events(run, h, rng, 150 if q else 3000)
    plan(h, sessions)
    logs = run_sessions(binary, sessions, 8)
    sample_session(run, sessions[1], logs[1])
    totals = validate(run, "C17", "sessions", logs, shard_of=lambda i: shard[i], scripts=sessions, binary=binary)
    # logging sessions run in a scratch directory (the engine writes walleye_<pid>.log into its working directory)
    scratch = R.trace_dir("C17-logcwd")
    plan(h, log_sessions)
    llogs = run_sessions(binary, log_sessions, 6, cwd=scratch)
    ltot = validate(run, "C17", "logging", llogs, scripts=log_sessions, binary=binary)
    run.cov["sessions_with_engine_logging_on"] = len(log_sessions)
    shutil.rmtree(scratch, ignore_errors=True)
    if totals.get("exits", 0) < 10 or totals.get("readyoks", 0) < 10:
        raise ToolError("coverage hole: exits / readyok not observed")
    model_walleye(run, tier)
    run.cov["rule"] = ("garbage alphabet (unknown words, empty lines, whitespace and tab runs, a 3000-character line, non-ASCII, near-miss commands) interleaved with "
                       "well-formed commands; every isready must be answered; the probe after garbage must give the reply of the garbage-free session (memo); unknown "
                       "tokens inside go; quit must end the process within 1 s; standard input closed after every prefix of sessions containing blank lines must "
                       "end it within 2 s (a spinning process is killed and reported); Walleye.tla: Ignored stutters, Quit / Eof ~> dead")
    return run.finish()


# ------------------------------------------------------------------------------------------------------------
# process-level parts of C10 and C18
# ------------------------------------------------------------------------------------------------------------
def position_dumps(run, pid, tier):
    """The instrumented binary logs board + repetition record inside the real command loop after every position command;
    several position commands per session (this is what sees a missing clear())."""
    rng = random.Random(vcommon.seed() * 31 + 10)
    h = vcommon.build_harness()
    binary = vcommon.build_binary(True)
    q = tier == "quick"
    live, _ = pool(h, vcommon.seed() + 5, 4, 0, 10 if q else 60, 10 if q else 60)
    cyc = "g1f3 g8f6 f3g1 f6g8"
    reps = ["position startpos moves " + " ".join([cyc] * 4), "position startpos moves " + " ".join([cyc] * 6) + " g1f3",
            "position startpos moves g1f3", "position startpos moves g1f3 g8f6 f3g1 f6g8", "position startpos",
            "position startpos moves g1f3 g8f6 f3g1 f6g8 g1f3 g8f6 f3g1 f6g8", "position startpos moves b1c3 b8c6 c3b1 c6b8 b1c3 b8c6",
            "position startpos moves e2e4 e7e5 g1f3 g8f6 f3g1 f6g8 g1f3 g8f6 f3g1 f6g8 d2d4"]
    sessions, traces = [], []
    d = R.trace_dir(pid + "-dump")
    for i in range(10 if q else 80):
        steps = []
        last = None
        for _ in range(rng.randint(2, 5)):
            # sometimes the very same command again (after a go the engine's board has moved on)
            line = last if (last and rng.random() < 0.3) else rng.choice(live + reps)
            last = line
            steps.append({"do": "send", "line": line})
            for _ in range(rng.choice([0, 1, 1, 2, 3])):
                steps.append({"do": "go", "line": rng.choice(GO_ZERO)})
        steps.append({"do": "isready"})
        sessions.append(steps)
    # GUI-style games: the record and the board after EVERY position command of a game that grows by the engine's own
    # move and a reply, and the record handed to the search at every go
    games, _ = game_sessions(rng, live + reps[:2], 3 if q else 25, "pdg", plies=6)
    sessions += [g + [{"do": "isready"}] for g in games]
    run.cov["gui_style_games"] = len(games)
    for i in range(len(sessions)):
        traces.append(os.path.join(d, "hook%03d.ndjson" % i))
    plan(h, sessions)
    logs = run_sessions(binary, sessions, 8, traces)
    merged = []
    for evs, tp in zip(logs, traces):
        dumps = []
        if os.path.exists(tp):
            for l in open(tp):
                e = json.loads(l)
                if e["ev"] == "pos_done":
                    dumps.append(e)
        out, k = [], 0
        for e in evs:
            out.append(e)
            if e["ev"] == "in" and "position" in e and k < len(dumps):
                dd = dumps[k]
                k += 1
                b = dd["board"]
                out.append({"ev": "posdump", "board": {"r": b["r"], "stm": b["stm"], "cr": b["cr"], "ep": b["ep"]},
                            "table": [[x[0], x[1]] for x in dd["table"] if x[1] != 0]})
        merged.append(out)
    # the record handed to the search at every go (go_start events of the same sessions)
    merged2 = []
    for evs, tp in zip(merged, traces):
        starts, srch = [], []
        if os.path.exists(tp):
            for l in open(tp):
                e = json.loads(l)
                if e["ev"] == "go_start":
                    b = e["board"]
                    starts.append({"ev": "hk", "h": "go_start", "seq": e["seq"], "expired": False,
                                   "board": {"r": b["r"], "stm": b["stm"], "cr": b["cr"], "ep": b["ep"], "d": b["d"]},
                                   "table": [[x[0], x[1]] for x in e["table"] if x[1] != 0]})
                    if len(str(e.get("slice", ""))) <= 9 and str(e.get("slice", "")).isdigit():
                        starts[-1]["slice"] = int(e["slice"])
                elif e["ev"] == "srch_start":
                    # the k-th search thread belongs to the k-th go that reached the search
                    srch.append([[x[0], x[1]] for x in e["table"] if x[1] != 0])
        searched, cur = set(), None
        for i, e in enumerate(evs):
            if e["ev"] == "in" and e.get("go"):
                cur = i
                searched.add(i)
            elif e["ev"] == "out" and e.get("k") == "bestmove" and cur is not None:
                if e.get("move") in ("0000", "(none)"):
                    searched.discard(cur)
                cur = None
        out, k = [], 0
        for i, e in enumerate(evs):
            out.append(e)
            if i in searched and k < len(starts):
                if k < len(srch):
                    starts[k]["stable"] = srch[k]
                out.append(starts[k])
                k += 1
        merged2.append(out)
    merged = merged2
    shutil.rmtree(d, ignore_errors=True)
    totals = validate(run, pid, "dumps", merged, also=(), scripts=sessions, binary=None)
    if totals.get("posdumps", 0) < 10:
        raise ToolError("coverage hole: fewer than 10 position dumps from the instrumented binary")
    run.cov["position_dumps_from_real_loop"] = totals.get("posdumps", 0)


def thread_events(run, pid, tier, with_tables=False, sessions_override=None):
    """The instrumented binary writes one event per linearization point of Walleye.tla's actions (go_start, srch_send,
    io_recv, io_exit) under a global sequence number; TraceUci replays them against the model's channel / best / root."""
    rng = random.Random(vcommon.seed() * 31 + 33)
    h = vcommon.build_harness()
    binary = vcommon.build_binary(True)
    q = tier == "quick"
    live, _ = pool(h, vcommon.seed() + 7, 8, 4, 3, 8)
    d = R.trace_dir(pid + "-hooks")
    sessions, traces = [], []
    for i in range(16 if q else 150):
        steps = [{"do": "send", "line": rng.choice(live)}]
        for _ in range(rng.randint(2, 5)):
            steps.append({"do": "go", "line": rng.choice(GO_ZERO + GO_SMALL + ["go wtime %d btime %d movestogo 1" % ((rng.randint(101, 160),) * 2)])})
        sessions.append(steps)
    if sessions_override is not None:
        sessions = sessions_override(live, rng)
    for i in range(len(sessions)):
        traces.append(os.path.join(d, "hook%03d.ndjson" % i))
    plan(h, sessions)
    logs = run_sessions(binary, sessions, 8, traces)
    merged = []
    traces_kept = [open(tp).read().splitlines() if os.path.exists(tp) else [] for tp in traces]
    for evs, tp in zip(logs, traces):
        hk = []
        if os.path.exists(tp):
            for l in open(tp):
                e = json.loads(l)
                if e["ev"] in ("go_start", "srch_send", "io_recv", "io_exit"):
                    b = e["board"]
                    hk.append({"ev": "hk", "h": e["ev"], "seq": e["seq"], "expired": e.get("expired", False),
                               "board": {"r": b["r"], "stm": b["stm"], "cr": b["cr"], "ep": b["ep"], "d": b["d"]}})
                elif e["ev"] == "srch_print":
                    hk.append({"ev": "hk", "h": "srch_print", "seq": e["seq"], "pv1": e.get("pv1", "")})
        hk.sort(key=lambda x: x["seq"])
        if os.environ.get("VERIF_SELFTEST_DROP_SEND"):
            # self-test of the binding only: lose one hook's events (the second srch_send of the session) - the trace must be rejected
            idx = [i for i, x in enumerate(hk) if x["h"] == "srch_send"]
            if len(idx) > 1:
                del hk[idx[1]]
        # the process events form their own totally ordered sub-trace (global sequence number); they are appended
        # after the driver's view of the same session
        merged.append(evs + hk)
    if with_tables:
        # sessions for the record-at-go conjunct: the go_start events (with the record handed to the search) are placed
        # right after the go command they belong to, so that TraceUci compares them with the game of the position
        # command in force at that moment
        merged2 = []
        for evs, tp in zip(logs, traces_kept):
            starts, srch = [], []
            for l in tp:
                e = json.loads(l)
                if e["ev"] == "go_start":
                    b = e["board"]
                    starts.append({"ev": "hk", "h": "go_start", "seq": e["seq"], "expired": False,
                                   "board": {"r": b["r"], "stm": b["stm"], "cr": b["cr"], "ep": b["ep"], "d": b["d"]},
                                   "table": [[x[0], x[1]] for x in e["table"] if x[1] != 0]})
                    if len(str(e.get("slice", ""))) <= 9 and str(e.get("slice", "")).isdigit():
                        starts[-1]["slice"] = int(e["slice"])
                elif e["ev"] == "srch_start":
                    # the k-th search thread belongs to the k-th go that reached the search
                    srch.append([[x[0], x[1]] for x in e["table"] if x[1] != 0])
            # a go answered with the null move never reached the search (no go_start); every other go did
            searched = set()
            cur = None
            for i, e in enumerate(evs):
                if e["ev"] == "in" and e.get("go"):
                    cur = i
                    searched.add(i)
                elif e["ev"] == "out" and e.get("k") == "bestmove" and cur is not None:
                    if e.get("move") in ("0000", "(none)"):
                        searched.discard(cur)
                    cur = None
            out, k = [], 0
            for i, e in enumerate(evs):
                out.append(e)
                if i in searched and k < len(starts):
                    if k < len(srch):
                        starts[k]["stable"] = srch[k]
                    out.append(starts[k])
                    k += 1
            merged2.append(out)
        merged = merged2
    shutil.rmtree(d, ignore_errors=True)
    totals = validate(run, pid, "hooks", merged, scripts=sessions, binary=None)
    if sessions_override is None and totals.get("hook_recvs", 0) < 10:
        raise ToolError("coverage hole: fewer than 10 receive events from the instrumented binary")
    if sessions_override is None and totals.get("hook_prints", 0) < 10:
        raise ToolError("coverage hole: fewer than 10 print events from the instrumented binary")
    run.cov["thread_events_validated"] = run.cov.get("thread_events_validated", 0) + totals.get("hook_events", 0)
    run.cov["print_events_matched_to_their_sends"] = run.cov.get("print_events_matched_to_their_sends", 0) + totals.get("hook_prints", 0)
    return totals


# go lines whose parameters must not leak into the next go of the same session: each pair (a, b) is served as a then b; if
# anything of a survived, b's slice would break the contract stated for b's own tokens
CARRY = [("go wtime 300 btime 300 movestogo 1", "go wtime 3100 btime 3100"),              # moves to go
         ("go wtime 250 btime 250 winc 2000 binc 2000", "go wtime 90 btime 90"),          # increments
         ("go wtime 400 btime 400 movestogo 2", "go winc 0 binc 0"),                      # clocks
         ("go wtime 350 btime 90 movestogo 1", "go btime 350 wtime 90 movestogo 1"),      # colour of the clock
         ("go wtime 200 btime 200 winc 300 binc 300 movestogo 1", "go"),                  # everything
         ("go movestogo 1", "go wtime 2500 btime 2500"),                                  # moves to go without clock
         ("go wtime 150 btime 150 movestogo 1", "go wtime 6100 btime 6100 winc 0 binc 0")]


def go_sequences(run, tier):
    """C09 inside the real command loop (instrumented binary): chains of go commands on one position / with position
    commands in between; the slice logged at every GoAccept is checked against the tokens of its own go line."""
    def build(live, rng):
        sessions = []
        pairs = CARRY if tier != "quick" else CARRY
        for a, b in pairs:
            sessions.append([{"do": "send", "line": rng.choice(live)}, {"do": "go", "line": a}, {"do": "go", "line": b}])
            sessions.append([{"do": "send", "line": rng.choice(live)}, {"do": "go", "line": a}, {"do": "send", "line": "ucinewgame"},
                             {"do": "send", "line": rng.choice(live)}, {"do": "go", "line": b}, {"do": "go", "line": a}])
        return sessions
    totals = thread_events(run, "C09", tier, with_tables=True, sessions_override=build)
    if totals.get("hook_events", 0) < 2 * len(CARRY):
        raise ToolError("coverage hole: fewer go_start events than go sequences")
    run.cov["go_sequences_with_logged_slice"] = 2 * len(CARRY)


def timed_info_lines(run, pid, tier):
    rng = random.Random(vcommon.seed() * 31 + 18)
    h = vcommon.build_harness()
    binary = vcommon.build_binary(False)
    q = tier == "quick"
    live, _ = pool(h, vcommon.seed() + 6, 6, 6, 3, 8)
    sessions = []
    for _ in range(10 if q else 80):
        sessions.append([{"do": "send", "line": rng.choice(live)}, {"do": "go", "line": rng.choice(GO_MEDIUM + GO_SMALL)}, {"do": "go", "line": rng.choice(GO_SMALL)}])
    live2, _ = pool(h, vcommon.seed() + 8, 2, 0, 0, 0, 10)
    # a forced reply searched with a long slice, followed at once by the next search (lines of the first search must not
    # run into the second)
    for f in FORCED[:4]:
        sessions.append([{"do": "send", "line": f}, {"do": "go", "line": "go wtime 1100 btime 1100 movestogo 1"},
                         {"do": "send", "line": rng.choice(live)}, {"do": "go", "line": "go wtime 600 btime 600 movestogo 1"}])
    # a clock far beyond anything a GUI sends (the slice does not fit 64 bits): never answered in our lifetime, but the
    # lines printed meanwhile are still judged
    # (the engine is right to think "forever" here: the driver gives up after 7 s; the unanswered go and the process that
    # outlives its input are consequences of the clock it was given, not findings - the session is read for its info lines)
    sessions.append([{"do": "send", "line": rng.choice(live)}, {"do": "go", "line": "go wtime 691752902764108185600 btime 691752902764108185600", "wait_ms": 7000,
                      "expect_unanswered": True}])
    plan(h, sessions)
    logs = run_sessions(binary, sessions, 6)
    totals = validate(run, pid, "timed", logs, scripts=sessions, binary=binary)
    if totals.get("infos", 0) < 20:
        raise ToolError("coverage hole: fewer than 20 info lines from timed runs")
    run.cov["info_lines_from_real_binary"] = totals.get("infos", 0)
