"""Self-checks of the specification itself: SANY on every module, perft totals of the rules oracle,
expected failures of the bug-variant configurations (anti-vacuity)."""
import glob
import json
import os
import re
import shutil
import subprocess
from concurrent.futures import ThreadPoolExecutor

import chessutil
import vcommon
from vcommon import log

PERFT = [
    ("startpos", "rnbqkbnr/pppppppp/8/8/8/8/PPPPPPPP/RNBQKBNR w KQkq - 0 1", [20, 400, 8902, 197281]),
    ("kiwipete", "r3k2r/p1ppqpb1/bn2pnp1/3PN3/1p2P3/2N2Q1p/PPPBBPPP/R3K2R w KQkq - 0 1", [48, 2039, 97862, 4085603]),
    ("position3", "8/2p5/3p4/KP5r/1R3p1k/8/4P1P1/8 w - - 0 1", [14, 191, 2812, 43238]),
    ("position4", "r3k2r/Pppp1ppp/1b3nbN/nP6/BBP1P3/q4N2/Pp1P2PP/R2Q1RK1 w kq - 0 1", [6, 264, 9467, 422333]),
    ("position5", "rnbq1k1r/pp1Pbppp/2p5/8/2B5/8/PPP1NnPP/RNBQK2R w KQ - 1 8", [44, 1486, 62379, 2103487]),
    ("position6", "r4rk1/1pp1qppp/p1np1n2/2b1p1B1/2B1P1b1/P1NP1N2/1PP1QPPP/R4RK1 w - - 0 10", [46, 2079, 89890, 3894594]),
]


def sany():
    bad = []
    for f in sorted(glob.glob(os.path.join(vcommon.SPEC, "*.tla"))):
        # modules for Apalache (EXTENDS Apalache) are parsed and type-checked by Apalache itself when they are used
        if re.search(r"^EXTENDS.*\bApalache\b", open(f).read(), re.M) or "_gen" in os.path.basename(f):
            continue
        jtmp = os.path.join(vcommon.BUILD, "tlcmeta", "sany-tmp")
        os.makedirs(jtmp, exist_ok=True)
        p = subprocess.run(["java", "-Djava.io.tmpdir=" + jtmp, "-cp", vcommon.TLA_CP, "tla2sany.SANY", os.path.basename(f)], cwd=vcommon.SPEC,
                           stdout=subprocess.PIPE, stderr=subprocess.STDOUT, text=True)
        if p.returncode != 0 or "rror" in p.stdout:
            bad.append((f, p.stdout[-800:]))
    shutil.rmtree(os.path.join(vcommon.BUILD, "tlcmeta", "sany-tmp"), ignore_errors=True)
    return bad


def perft(depth_of):
    jobs = []
    d = os.path.join(vcommon.BUILD, "perft")
    os.makedirs(d, exist_ok=True)
    for name, fen, totals in PERFT:
        depth = depth_of(name)
        s = chessutil.fen_to_s(fen)
        nsh = 1 if depth <= 2 else (4 if depth == 3 else 16)
        for i in range(nsh):
            path = os.path.join(d, "%s-%d-%d.json" % (name, depth, i))
            json.dump({"name": name, "fen": fen, "pos": {k: s[k] for k in ("r", "stm", "cr", "ep")}, "half": s["half"],
                       "full": s["full"], "depth": depth, "shard": i, "of": nsh}, open(path, "w"))
            jobs.append((name, depth, path))

    def one(j):
        r = vcommon.tlc("Perft", "Perft.cfg", env={"PERFT": j[2]}, workers=1, xmx="2g", timeout=3000)
        pr = vcommon.tlc_prints(r["out"], "PERFT")
        if not pr:
            raise vcommon.ToolError("perft run failed: " + r["out"][-1500:])
        return j[0], j[1], pr[0][4]

    with ThreadPoolExecutor(max_workers=vcommon.NCPU) as ex:
        res = list(ex.map(one, jobs))
    sums = {}
    for name, depth, v in res:
        sums[(name, depth)] = sums.get((name, depth), 0) + v
    bad = []
    for name, fen, totals in PERFT:
        depth = depth_of(name)
        if sums[(name, depth)] != totals[depth - 1]:
            bad.append((name, depth, sums[(name, depth)], totals[depth - 1]))
    return sums, bad


EXPECT_FAIL = [("MC_Game_bug1.cfg", "GenIsLegal"), ("MC_Game_bug2.cfg", "GenIsLegal"), ("MC_Game_bug3.cfg", "SuccIsApply"),
               ("MC_Game_bug4.cfg", "CapsIsLegal")]


def bug_variants():
    import registry
    seeds = registry.small_seeds_file()
    bad = []
    for cfg, inv in EXPECT_FAIL:
        r = vcommon.tlc("MC_Game", cfg, env={"SEEDS": seeds, "MAXPLY": "2"}, workers=vcommon.NCPU, xmx="8g", timeout=1200)
        m = re.search(r"Invariant (\w+) is violated", r["out"])
        if not m:
            bad.append((cfg, "expected a violation of %s, got none" % inv))
    return bad


def walleye_variants():
    bad = []
    for v, want in (("noanswer", "Temporal"), ("eofspins", "Temporal"), ("fallback", "Temporal"), ("stale", "Temporal"), ("sharedchan", "ChannelFresh"),
                    ("latch", "NullMoveOnlyWhenOver"), ("givesup", "DiesOnlyWhenTold")):
        r = vcommon.tlc("Walleye", "MC_Walleye_%s.cfg" % v, workers=8, xmx="8g", timeout=1200)
        ok = bool(re.search(r"Temporal propert(y|ies) .*(was|were) violated", r["out"])) if want == "Temporal" else ("Invariant %s is violated" % want in r["out"])
        if not ok:
            bad.append((v, "expected a violation of %s" % want))
    return bad


def run(quick=True):
    rc = 0
    bad = sany()
    if bad:
        for f, o in bad:
            print("SANY failed on", f, o)
        rc = 2
    sums, badp = perft((lambda n: 3) if quick else (lambda n: 4 if n in ("startpos", "position3", "position4") else 3))
    log("perft self-check of Chess.tla: %s" % {("%s d%d" % k): v for k, v in sums.items()})
    if badp:
        print("PERFT MISMATCH (oracle wrong):", badp)
        rc = 2
    b = bug_variants()
    if b:
        print("bug-variant configurations did not fail as expected:", b)
        rc = 2
    b = walleye_variants()
    if b:
        print("Walleye bug-variant configurations did not fail as expected:", b)
        rc = 2
    import checks_search
    if hasattr(checks_search, "selfcheck"):
        rc = max(rc, checks_search.selfcheck(quick))
    log("self-check %s" % ("OK" if rc == 0 else "FAILED"))
    return rc
