"""Shared machinery of the Walleye verification checks (stdlib only).

Builds the harness / the real binary from the repository's current working tree, runs TLC
(model runs and trace validation shards), collects verdicts, writes evidence and replay files,
applies the known-findings policy.
"""
import hashlib
import json
import os
import re
import shutil
import subprocess
import sys
import time
from concurrent.futures import ThreadPoolExecutor

VERIF = os.path.dirname(os.path.dirname(os.path.abspath(__file__)))
REPO = os.environ.get("WALLEYE_REPO", "/repo")
BUILD = os.path.join(VERIF, "build")
SPEC = os.path.join(VERIF, "spec")
REPLAYS = os.path.join(VERIF, "replays")
EVIDENCE = os.path.join(VERIF, "evidence")
TLA_CP = "/opt/veriftools/tla/tla2tools.jar:/opt/veriftools/tla/CommunityModules-deps.jar"
NCPU = int(os.environ.get("VERIF_JOBS", "16"))


class ToolError(Exception):
    pass


def seed():
    try:
        return int(os.environ.get("VERIF_SEED", "1"))
    except ValueError:
        return 1


def repo_tag():
    return hashlib.sha1(os.path.abspath(REPO).encode()).hexdigest()[:8]


def log(*a):
    print("[check]", *a, file=sys.stderr, flush=True)


# ----------------------------------------------------------------------------------------------
# builds
# ----------------------------------------------------------------------------------------------
def _cargo_env():
    env = dict(os.environ)
    env["CARGO_NET_OFFLINE"] = "true"
    env["WALLEYE_REPO"] = os.path.abspath(REPO)
    return env


def build_harness():
    """Harness = the repository's modules (included by path) + drivers; rebuilt from the working tree."""
    tgt = os.path.join(BUILD, "harness-target-" + repo_tag())
    env = _cargo_env()
    env["CARGO_TARGET_DIR"] = tgt
    t0 = time.time()
    lock = os.path.join(VERIF, "harness", "Cargo.lock")
    p = subprocess.run(["cargo", "build", "--release", "--offline"], cwd=os.path.join(VERIF, "harness"),
                       env=env, stdout=subprocess.PIPE, stderr=subprocess.STDOUT, text=True)
    if p.returncode != 0:
        raise ToolError("harness build failed:\n" + p.stdout[-4000:])
    log("harness built in %.1fs" % (time.time() - t0))
    return os.path.join(tgt, "release", "wharness")


def build_binary(guard_on=False):
    """The real walleye binary, built from the working tree (guard off = what a user runs)."""
    tgt = os.path.join(BUILD, "bin-%s-%s" % ("on" if guard_on else "off", repo_tag()))
    env = _cargo_env()
    flags = "-C target-cpu=native"
    if guard_on:
        flags = "--cfg walleye_verif " + flags
    env["RUSTFLAGS"] = flags
    env["CARGO_PROFILE_RELEASE_LTO"] = "false"
    env["CARGO_PROFILE_RELEASE_CODEGEN_UNITS"] = "16"
    t0 = time.time()
    p = subprocess.run(["cargo", "build", "--release", "--offline", "--target-dir", tgt], cwd=REPO, env=env,
                       stdout=subprocess.PIPE, stderr=subprocess.STDOUT, text=True)
    if p.returncode != 0:
        raise ToolError("binary build failed:\n" + p.stdout[-4000:])
    log("binary (guard %s) built in %.1fs" % ("on" if guard_on else "off", time.time() - t0))
    return os.path.join(tgt, "release", "walleye")


def run_harness(binary, args, timeout=3600):
    p = subprocess.run([binary] + [str(a) for a in args], stdout=subprocess.PIPE, stderr=subprocess.PIPE, text=True,
                       timeout=timeout)
    if p.returncode != 0:
        raise ToolError("harness %s failed (%d): %s" % (args[:1], p.returncode, p.stderr[-2000:]))
    last = p.stdout.strip().splitlines()[-1] if p.stdout.strip() else "{}"
    try:
        return json.loads(last)
    except json.JSONDecodeError:
        raise ToolError("harness output not json: " + last[:500])


# ----------------------------------------------------------------------------------------------
# TLC
# ----------------------------------------------------------------------------------------------
_tlc_counter = [0]


def tlc(module, cfg, env=None, workers=1, xmx="3g", timeout=3600, extra=None, deque=False, coverage=False):
    """Run TLC on spec/<module>.tla with spec/<cfg>. Returns dict(out, rc, states, distinct, ok, wall)."""
    _tlc_counter[0] += 1
    meta = os.path.join(BUILD, "tlcmeta", "%d-%d-%s" % (os.getpid(), _tlc_counter[0], module))
    os.makedirs(meta, exist_ok=True)
    e = dict(os.environ)
    # the JVM's temporary directory inside the run's meta directory (TLC / SANY leave one directory per run behind otherwise)
    jtmp = os.path.join(meta, "tmp")
    os.makedirs(jtmp, exist_ok=True)
    jopts = "-Xss1g -Djava.io.tmpdir=" + jtmp
    if deque:
        jopts += " -Dtlc2.tool.queue.IStateQueue=StateDeque"
    e["JAVA_TOOL_OPTIONS"] = jopts
    if env:
        e.update({k: str(v) for k, v in env.items()})
    gcthreads = "2" if workers == 1 else str(min(8, workers))
    cmd = ["java", "-XX:+UseParallelGC", "-XX:ParallelGCThreads=" + gcthreads, "-Xmx" + xmx, "-cp", TLA_CP, "tlc2.TLC",
           "-workers", str(workers), "-metadir", meta, "-cleanup", "-noGenerateSpecTE"]
    if coverage:
        cmd += ["-coverage", "1"]
    if extra:
        cmd += extra
    cmd += ["-config", cfg, module + ".tla"]
    t0 = time.time()
    try:
        p = subprocess.run(cmd, cwd=SPEC, env=e, stdout=subprocess.PIPE, stderr=subprocess.STDOUT, text=True,
                           timeout=timeout)
        out, rc = p.stdout, p.returncode
    except subprocess.TimeoutExpired as ex:
        out = (ex.stdout.decode() if isinstance(ex.stdout, bytes) else (ex.stdout or "")) + "\nTIMEOUT"
        rc = 124
    shutil.rmtree(meta, ignore_errors=True)
    res = {"out": out, "rc": rc, "wall": time.time() - t0, "states": 0, "distinct": 0}
    m = re.search(r"(\d+) states generated, (\d+) distinct states found", out)
    if m:
        res["states"], res["distinct"] = int(m.group(1)), int(m.group(2))
    res["ok"] = rc == 0 and "Model checking completed. No error has been found." in out
    return res


def apalache(module, args, timeout=1500):
    """apalache-mc check on spec/<module>.tla; returns 'NoError', 'Error' (counter-example) or raises ToolError."""
    outdir = os.path.join(BUILD, "apalache", "%d-%d" % (os.getpid(), _tlc_counter[0]))
    _tlc_counter[0] += 1
    os.makedirs(outdir, exist_ok=True)
    cmd = ["apalache-mc", "check", "--out-dir=" + outdir] + args + [module + ".tla"]
    try:
        p = subprocess.run(cmd, cwd=SPEC, stdout=subprocess.PIPE, stderr=subprocess.STDOUT, text=True, timeout=timeout)
        out = p.stdout
    except subprocess.TimeoutExpired:
        shutil.rmtree(outdir, ignore_errors=True)
        raise ToolError("apalache timed out: %s" % args)
    shutil.rmtree(outdir, ignore_errors=True)
    m = re.search(r"The outcome is: (\w+)", out)
    if not m or m.group(1) not in ("NoError", "Error"):
        raise ToolError("apalache failed: %s\n%s" % (args, out[-1500:]))
    return m.group(1)


def tlc_prints(out, tag):
    """PrintT(<<"TAG", ...>>) lines of a TLC run, parsed into python lists."""
    res = []
    for line in out.splitlines():
        if line.startswith('<<"%s"' % tag):
            res.append(parse_tla(line))
    return res


def parse_tla(s):
    """Parse a printed TLA+ value made of tuples, sets, strings, ints, booleans into python."""
    pos = [0]

    def ws():
        while pos[0] < len(s) and s[pos[0]] in " \n\t":
            pos[0] += 1

    def val():
        ws()
        if s.startswith("<<", pos[0]):
            pos[0] += 2
            items = []
            ws()
            if s.startswith(">>", pos[0]):
                pos[0] += 2
                return items
            while True:
                items.append(val())
                ws()
                if s.startswith(",", pos[0]):
                    pos[0] += 1
                    continue
                if s.startswith(">>", pos[0]):
                    pos[0] += 2
                    return items
                raise ValueError("bad tuple at %d in %r" % (pos[0], s[:200]))
        if s[pos[0]] == "{":
            pos[0] += 1
            items = []
            ws()
            if s[pos[0]] == "}":
                pos[0] += 1
                return items
            while True:
                items.append(val())
                ws()
                if s[pos[0]] == ",":
                    pos[0] += 1
                    continue
                if s[pos[0]] == "}":
                    pos[0] += 1
                    return items
                raise ValueError("bad set")
        if s[pos[0]] == '"':
            pos[0] += 1
            buf = []
            while s[pos[0]] != '"':
                if s[pos[0]] == "\\":
                    pos[0] += 1
                    c = s[pos[0]]
                    buf.append({"n": "\n", "t": "\t"}.get(c, c))
                else:
                    buf.append(s[pos[0]])
                pos[0] += 1
            pos[0] += 1
            return "".join(buf)
        m = re.match(r"-?\d+", s[pos[0]:])
        if m:
            pos[0] += len(m.group(0))
            return int(m.group(0))
        for lit, v in (("TRUE", True), ("FALSE", False)):
            if s.startswith(lit, pos[0]):
                pos[0] += len(lit)
                return v
        raise ValueError("cannot parse at %d: %r" % (pos[0], s[pos[0]:pos[0] + 40]))

    return val()


def validate_shards(module, cfg, shard_files, timeout=3600, env_extra=None):
    """Trace validation: one single-worker TLC per shard file, up to NCPU in parallel.

    Each run writes its verdict record (counts + bad register) to <shard>.verdict.json through the
    specification's Report (Json!ndJsonSerialize).  Returns (verdict list, tlc stats)."""
    files = [f for f in shard_files if os.path.getsize(f) > 0]

    def one(f):
        outf = f + ".verdict.json"
        if os.path.exists(outf):
            os.remove(outf)
        env = {"TRACE": f, "OUT": outf}
        if env_extra:
            env.update(env_extra)
        r = tlc(module, cfg, env=env, workers=1, xmx="3g", timeout=timeout, deque=True)
        r["file"] = f
        r["verdict"] = None
        if os.path.exists(outf):
            with open(outf) as fh:
                txt = fh.read().strip()
            if txt:
                r["verdict"] = json.loads(txt.splitlines()[0])
        return r

    with ThreadPoolExecutor(max_workers=NCPU) as ex:
        results = list(ex.map(one, files))
    for r in results:
        if not r["ok"] or r["verdict"] is None:
            raise ToolError("trace validation did not complete on %s (rc=%s):\n%s" % (r["file"], r["rc"], r["out"][-3000:]))
    return results


def read_event(path, line):
    with open(path) as fh:
        for i, l in enumerate(fh, 1):
            if i == line:
                return json.loads(l)
    return None


# ----------------------------------------------------------------------------------------------
# verdicts, known findings, evidence
# ----------------------------------------------------------------------------------------------
def load_known():
    path = os.path.join(VERIF, "KNOWN_FINDINGS.txt")
    findings = []
    if os.path.exists(path):
        for l in open(path):
            l = l.strip()
            m = re.match(r"finding:\s+property=(\S+)\s+key=(\S+)\s*(.*)", l)
            if m:
                findings.append({"property": m.group(1), "key": m.group(2), "what": m.group(3)})
    return findings


class Run:
    """One invocation of a check: accumulates coverage, violations, and writes the evidence file."""

    def __init__(self, pid, tier, level, replay=False):
        self.pid, self.tier, self.level = pid, tier, level
        self.replay = replay
        self.t0 = time.time()
        self.cov = {"samples": []}
        self.assumptions = []
        self.violations = []
        self.known_hits = []
        self.known = [k for k in load_known() if k["property"] == pid]

    def add(self, key, n):
        self.cov[key] = self.cov.get(key, 0) + n

    def foreign(self, prop, code, detail):
        """a conjunct of ANOTHER property failed in this check's traces: not judged here (that property's own check
        decides it), but never silent - it is printed and recorded in the evidence"""
        lst = self.cov.setdefault("foreign_conjunct_failures", [])
        if len(lst) < 10:
            lst.append("%s %s %s" % (prop, code, str(detail)[:200]))
            log("  note: conjunct of %s failed in this run (judged by ./check %s): %s %s" % (prop, prop, code, str(detail)[:300]))

    def sample(self, s, cap=6):
        if len(self.cov["samples"]) < cap:
            self.cov["samples"].append(s)

    def violation(self, key, what, replay_obj):
        """key = canonical failing input (matched against KNOWN_FINDINGS.txt)."""
        for k in self.known:
            if k["key"] == key:
                self.known_hits.append((k, what))
                return
        if len(self.violations) >= 20:
            self.violations.append(None)
            return
        os.makedirs(REPLAYS, exist_ok=True)
        h = hashlib.sha1(json.dumps(replay_obj, sort_keys=True).encode()).hexdigest()[:10]
        path = os.path.join(REPLAYS, "%s-%s.json" % (self.pid, h))
        with open(path, "w") as fh:
            json.dump({"property": self.pid, "key": key, "what": what, "replay": replay_obj}, fh, indent=1)
        self.violations.append((key, what, path))

    def finish(self):
        self.cov.setdefault("states", 0)
        self.cov.setdefault("transitions", 0)
        self.cov.setdefault("traces_validated_against_impl", 0)
        if not self.cov["samples"]:
            self.cov["samples"] = ["(no sample recorded)"]
        nviol = len(self.violations)
        ev = {
            "property_id": self.pid, "tier": self.tier, "seed": seed(), "level": self.level,
            "coverage": self.cov, "assumptions": self.assumptions, "wall_s": round(time.time() - self.t0, 1),
            "violations": nviol,
        }
        if not self.replay:
            os.makedirs(EVIDENCE, exist_ok=True)
            with open(os.path.join(EVIDENCE, self.pid + ".json"), "w") as fh:
                json.dump(ev, fh, indent=1)
        for k, what in self.known_hits[:5]:
            print("KNOWN-FINDING: property=%s %s (%s)" % (self.pid, k["key"], k["what"] or what))
        shown = 0
        for v in self.violations:
            if v is None:
                continue
            key, what, path = v
            print("VIOLATION property=%s replay=%s" % (self.pid, path))
            if shown < 8:
                log("  %s: %s" % (key, what[:400]))
            shown += 1
        log("%s %s: %d violation(s), wall %.1fs, coverage keys %s" % (
            self.pid, self.tier, nviol, time.time() - self.t0,
            {k: v for k, v in self.cov.items() if isinstance(v, (int, float, bool))}))
        return 1 if nviol else 0
