// Search under the virtual clock: enumeration of expiry points (C07, C18), recorded game trees (C12),
// repetition / mate scenarios (C10, C11).  Events are judged by TraceSearch.tla.
use crate::board::*;
use crate::draw_table::DrawTable;
use crate::enc::*;
use crate::engine::get_best_move;
use crate::evaluation::get_evaluation;
use crate::move_generation::*;
use crate::rules::Shards;
use crate::uci;
use crate::verif_hooks;
use rand::rngs::StdRng;
use rand::{Rng, SeedableRng};
use serde_json::{json, Value};
use std::cmp::Reverse;
use std::collections::HashMap;
use std::panic::{catch_unwind, AssertUnwindSafe};
use std::sync::mpsc;
use std::time::Instant;

pub struct RunOut {
    pub infos: Vec<Value>,
    pub sends: Vec<Value>,
    pub queries: u64,
    pub panic: bool,
    pub table_after: Vec<(u64, u8)>,
}

fn table_entries(t: &DrawTable) -> Vec<(u64, u8)> {
    let mut v: Vec<(u64, u8)> = t.table.iter().filter(|(_, c)| **c != 0).map(|(k, c)| (*k, *c)).collect();
    v.sort_unstable();
    v
}

pub fn table_json(v: &[(u64, u8)]) -> Value {
    Value::Array(v.iter().map(|(k, c)| json!([format!("{:016x}", k), c])).collect())
}

// strict parser of `info pv <moves> depth D nodes N score (cp X | mate Y) time T`
pub fn parse_info(line: &str, q: u64) -> Value {
    let toks: Vec<&str> = line.split(' ').collect();
    let bad = || json!({"q": q, "ok": false, "raw": line});
    if toks.len() < 11 || toks[0] != "info" || toks[1] != "pv" {
        return bad();
    }
    let n = toks.len();
    // fixed tail: depth D nodes N score K V time T
    if toks[n - 9] != "depth" || toks[n - 7] != "nodes" || toks[n - 5] != "score" || toks[n - 2] != "time" {
        return bad();
    }
    let pv: Vec<&str> = toks[2..n - 9].to_vec();
    let is_move = |m: &str| {
        let b = m.as_bytes();
        (b.len() == 4 || b.len() == 5)
            && (b'a'..=b'h').contains(&b[0])
            && (b'1'..=b'8').contains(&b[1])
            && (b'a'..=b'h').contains(&b[2])
            && (b'1'..=b'8').contains(&b[3])
            && (b.len() == 4 || b"qrbn".contains(&b[4]))
    };
    if pv.is_empty() || !pv.iter().all(|m| is_move(m)) {
        return bad();
    }
    let num = |s: &str| -> Option<i64> {
        if s.is_empty() || !(s.bytes().all(|c| c.is_ascii_digit()) || (s.starts_with('-') && s.len() > 1 && s[1..].bytes().all(|c| c.is_ascii_digit()))) {
            return None;
        }
        s.parse().ok()
    };
    let (d, nd, v, tm) = (num(toks[n - 8]), num(toks[n - 6]), num(toks[n - 3]), num(toks[n - 1]));
    let kind = toks[n - 4];
    if d.is_none() || nd.is_none() || v.is_none() || tm.is_none() || !(kind == "cp" || kind == "mate") {
        return bad();
    }
    if d.unwrap() < 0 || nd.unwrap() < 0 || tm.unwrap() < 0 || v.unwrap().abs() > 2_000_000_000 || nd.unwrap() > 2_000_000_000 {
        return bad();
    }
    json!({"q": q, "ok": true, "depth": d, "nodes": nd, "kind": kind, "val": v, "pv": pv, "raw": line})
}

pub fn run_search(t: &Tables, board: &BoardState, table: &DrawTable, k: u64) -> RunOut {
    run_search_allow(t, board, table, k, 1_000_000_000)
}

// the same with an explicit allowance (ms) handed to the search: the virtual clock still decides every `out_of_time` query,
// so on code that consults nothing else the allowance is irrelevant; what the search REPORTS must not depend on it beyond
// where it stops ("a larger allowance only extends")
pub fn run_search_allow(t: &Tables, board: &BoardState, table: &DrawTable, k: u64, allowance_ms: u128) -> RunOut {
    let mut tbl = table.clone();
    let (tx, rx) = mpsc::channel();
    verif_hooks::install_clock(k);
    verif_hooks::install_log();
    let r = catch_unwind(AssertUnwindSafe(|| {
        // the allowance handed to the search is huge: expiry is decided by the virtual clock alone.  Code that looks at the
        // real clock directly (an early exit "when half of the slice is gone") then sees plenty of time and stays out of the
        // way instead of making the run depend on wall time (benign change B3-C08: false alarm sends-not-prefix)
        get_best_move(board, &mut tbl, Instant::now(), allowance_ms, &tx);
    }));
    let log = verif_hooks::take_log();
    let queries = verif_hooks::remove_clock().unwrap_or(0);
    let mut infos = Vec::new();
    let mut send_q = Vec::new();
    for e in &log {
        if e.kind == "out" {
            infos.push(parse_info(&e.text, e.query_index));
        } else if e.kind == "send" {
            send_q.push(e.query_index);
        }
    }
    // the boards that really went through the channel
    let mut sends = Vec::new();
    let mut i = 0;
    while let Ok(b) = rx.try_recv() {
        let q = send_q.get(i).copied().unwrap_or(0);
        sends.push(json!({"q": q, "s": t.state(&b), "txt": printed_move(&b)}));
        i += 1;
    }
    RunOut { infos, sends, queries, panic: r.is_err(), table_after: table_entries(&tbl) }
}

pub struct Scenario {
    pub cmd: String, // the position command that set it up
    pub board: BoardState,
    pub table: DrawTable,
}

pub fn scenario(t: &Tables, cmd: &str) -> Option<Scenario> {
    let toks: Vec<&str> = cmd.split(' ').collect();
    let mut table = DrawTable::new();
    let r = catch_unwind(AssertUnwindSafe(|| uci::verif_play_out_position(&toks, &t.hasher, &mut table)));
    match r {
        Ok(board) => Some(Scenario { cmd: cmd.to_string(), board, table }),
        Err(_) => None,
    }
}

// index of the first clock query after the last event of depth <= d of a long run: every k up to it is enumerated
fn horizon(full: &RunOut, d: i64) -> Option<u64> {
    // the first info line of a deeper iteration marks the completion of depth d
    for i in &full.infos {
        if i["ok"].as_bool() == Some(true) && i["depth"].as_i64().unwrap_or(0) > d {
            return Some(i["q"].as_u64().unwrap());
        }
    }
    None
}

fn full_event(t: &Tables, sc: &Scenario, full: &RunOut, kmax: u64, d: i64, tag: &str, ended: bool) -> Value {
    let infos: Vec<Value> = full.infos.iter().filter(|i| i["q"].as_u64().unwrap_or(0) <= kmax).cloned().collect();
    let sends: Vec<Value> = full.sends.iter().filter(|i| i["q"].as_u64().unwrap_or(0) <= kmax).cloned().collect();
    json!({"ev": "sfull", "tag": tag, "cmd": sc.cmd, "root": t.state(&sc.board), "rep0": table_json(&table_entries(&sc.table)),
           "K": kmax, "D": d, "infos": infos, "sends": sends, "panic": full.panic,
           "last_depth": full.infos.iter().filter_map(|i| i["depth"].as_i64()).max().unwrap_or(0),
           // the search returned by itself inside the query budget (the clock never expired): whatever it handed over last
           // is its final choice with unlimited time
           "ended": ended && !full.panic,
           "queries": full.queries,
           "final_txt": full.sends.last().map(|x| x["txt"].as_str().unwrap_or("").to_string()).unwrap_or_default(),
           "root_rep": root_rep_counts(t, sc), "root_order": root_order(t, sc)})
}

// the ordering value the generator gives every root move (captures by victim / attacker, promotions): the fallback of a
// search that completed nothing is "the first move in its ordering", i.e. one with the maximal value
fn root_order(t: &Tables, sc: &Scenario) -> Value {
    let moves = generate_moves(&sc.board, MoveGenerationMode::AllMoves, &t.hasher);
    Value::Array(moves.iter().map(|m| json!([printed_move(m), m.order_heuristic])).collect())
}

// for every root move: how often the position it leads to is already in the record (C10 precondition)
fn root_rep_counts(t: &Tables, sc: &Scenario) -> Value {
    let moves = generate_moves(&sc.board, MoveGenerationMode::AllMoves, &t.hasher);
    Value::Array(moves.iter().map(|m| json!([printed_move(m), *sc.table.table.get(&t.scratch_key(m)).unwrap_or(&0)])).collect())
}

/*
   C07 / C18: for each scenario, a long reference run, then one run for every expiry index k in 0..=K_D
   (all of them when K_D <= cap, otherwise all below cap/2 plus a random sample)
*/
fn par_map<T: Send, F: Fn(usize, &String) -> T + Sync>(cmds: &[String], f: F) -> Vec<T> {
    use std::sync::atomic::{AtomicUsize, Ordering};
    use std::sync::Mutex;
    let next = AtomicUsize::new(0);
    let results: Mutex<Vec<(usize, T)>> = Mutex::new(Vec::new());
    let nthreads = std::env::var("VERIF_JOBS").ok().and_then(|v| v.parse().ok()).unwrap_or(16usize);
    std::thread::scope(|sc| {
        for _ in 0..nthreads {
            sc.spawn(|| loop {
                let i = next.fetch_add(1, Ordering::SeqCst);
                if i >= cmds.len() {
                    break;
                }
                let r = f(i, &cmds[i]);
                results.lock().unwrap().push((i, r));
            });
        }
    });
    let mut v = results.into_inner().unwrap();
    v.sort_by_key(|x| x.0);
    v.into_iter().map(|x| x.1).collect()
}

pub fn expiry_enumeration(t: &Tables, cmds: &[String], dir: &str, nshards: usize, seed: u64, depth: i64, budget: u64, cap: u64, tag: &str) -> Value {
    // phase 1: reference runs
    struct Plan {
        cmd: String, // (the scenario is rebuilt per task: a board object is never shared between threads)
        full_ev: Value,
        ks: Vec<u64>,
        summary: Value,
    }
    let plans: Vec<Option<Plan>> = par_map(cmds, |pi, cmd| {
        let mut rng = StdRng::seed_from_u64(seed.wrapping_add(pi as u64));
        let sc = scenario(t, cmd)?;
        let full = run_search(t, &sc.board, &sc.table, budget);
        // deepest depth <= `depth` whose completion is visible inside the budget
        let mut d = depth;
        let mut kmax = None;
        while d >= 1 {
            kmax = horizon(&full, d);
            if kmax.is_some() {
                break;
            }
            d -= 1;
        }
        // nothing completed (tiny budget): still enumerate a few expiry points
        let mut kmax = kmax.unwrap_or(full.queries.min(50));
        // "deep" scenarios: when the search ran to its last iteration (or died) inside the budget, the expiry points
        // are spread over the WHOLE search
        // (candidates whose search neither got near the last iteration nor died are dropped: they say nothing about it)
        if tag == "deep" && !full.panic && full.infos.iter().filter_map(|i| i["depth"].as_i64()).max().unwrap_or(0) < 90 {
            return None;
        }
        if tag == "deep" && full.queries < budget {
            kmax = full.queries;
            d = full.infos.iter().filter_map(|i| i["depth"].as_i64()).max().unwrap_or(d);
        }
        let ks: Vec<u64> = if kmax <= cap {
            (0..=kmax).collect()
        } else {
            let mut v: Vec<u64> = (0..=cap / 2).collect();
            for _ in 0..cap / 2 {
                v.push(rng.gen_range(cap / 2 + 1..=kmax));
            }
            v.push(kmax);
            v.sort_unstable();
            v.dedup();
            v
        };
        let full_ev = full_event(t, &sc, &full, kmax, d, tag, full.queries < budget);
        let summary = json!({"cmd": cmd, "D": d, "K": kmax, "runs": ks.len(), "exhaustive": kmax <= cap});
        Some(Plan { cmd: cmd.clone(), full_ev, ks, summary })
    });
    let plans: Vec<Plan> = plans.into_iter().flatten().collect();
    // phase 2: one task per (scenario, chunk of expiry indices)
    let mut tasks: Vec<String> = Vec::new();
    for (pi, p) in plans.iter().enumerate() {
        for c in 0..((p.ks.len() + 63) / 64) {
            tasks.push(format!("{} {}", pi, c));
        }
    }
    let chunks: Vec<(usize, usize, Vec<Value>)> = par_map(&tasks, |_i, task| {
        let mut it = task.split(' ');
        let pi: usize = it.next().unwrap().parse().unwrap();
        let c: usize = it.next().unwrap().parse().unwrap();
        let p = &plans[pi];
        let sc = match scenario(t, &p.cmd) {
            Some(sc) => sc,
            None => return (pi, c, Vec::new()),
        };
        let mut evs = Vec::new();
        for &k in p.ks.iter().skip(c * 64).take(64) {
            let r = run_search(t, &sc.board, &sc.table, k);
            evs.push(json!({"ev": "srun", "k": k, "infos": r.infos, "sends": r.sends, "queries": r.queries,
                            "panic": r.panic, "rep_after": table_json(&r.table_after)}));
        }
        // the allowance itself as a parameter: the same search, same virtual expiry (far out), handed allowances on both sides of
        // every round number a maintainer might key a heuristic on.  Judged by prefix-relatedness only (code that also looks at
        // the real clock may stop earlier with a small allowance; it must not report anything else)
        if c == 0 && tag != "deep" {
            let k2 = budget.min(60000);
            let reference = run_search(t, &sc.board, &sc.table, k2);
            for &a in &[1u128, 9, 49, 99, 100, 101, 499, 1000, 4999, 30000, 600000] {
                let r = run_search_allow(t, &sc.board, &sc.table, k2, a);
                evs.push(json!({"ev": "sallow", "a": a as u64, "k": k2, "infos": r.infos, "sends": r.sends, "ref_infos": reference.infos,
                                "ref_sends": reference.sends, "panic": r.panic, "rep_after": table_json(&r.table_after)}));
            }
        }
        (pi, c, evs)
    });
    let mut out = Shards::new(dir, "search", nshards);
    let mut summary = Vec::new();
    let mut total_runs = 0u64;
    let mut load = vec![0usize; nshards];
    for (pi, p) in plans.iter().enumerate() {
        let shard = (0..nshards).min_by_key(|i| load[*i]).unwrap();
        out.emit(shard, &p.full_ev);
        for (qi, _c, evs) in chunks.iter() {
            if *qi == pi {
                for e in evs {
                    out.emit(shard, e);
                    total_runs += 1;
                    load[shard] += 1;
                }
            }
        }
        summary.push(p.summary.clone());
    }
    out.finish();
    json!({"scenarios": summary, "runs": total_runs})
}

// ---------------------------------------------------------------------------------------------
// recorded game trees for the reference value (C12, C10, C11)
// ---------------------------------------------------------------------------------------------
struct Rec<'a> {
    t: &'a Tables,
    nodes: Vec<Value>,
    keyid: HashMap<u64, u64>,
    qmemo: HashMap<(u64, u8), u64>, // quiescence DAG, memoised by position (key, side)
    cap: usize,
    over: bool,
}

impl<'a> Rec<'a> {
    fn kid(&mut self, key: u64) -> u64 {
        let n = self.keyid.len() as u64 + 1;
        *self.keyid.entry(key).or_insert(n)
    }
    fn ordered(&self, b: &BoardState, mode: MoveGenerationMode) -> Vec<BoardState> {
        let mut m = generate_moves(b, mode, &self.t.hasher);
        m.sort_unstable_by_key(|k| Reverse(k.order_heuristic));
        m
    }
    // quiescence-only node
    fn qnode(&mut self, b: &BoardState) -> u64 {
        let mk = (b.zobrist_key, (b.to_move == PieceColor::White) as u8);
        if let Some(&i) = self.qmemo.get(&mk) {
            return i;
        }
        if self.nodes.len() >= self.cap {
            self.over = true;
            return 0;
        }
        let idx = self.nodes.len();
        self.nodes.push(Value::Null);
        self.qmemo.insert(mk, idx as u64 + 1);
        let caps: Vec<u64> = self.ordered(b, MoveGenerationMode::CapturesOnly).iter().map(|c| self.qnode(c)).collect();
        let k = self.kid(b.zobrist_key);
        self.nodes[idx] = json!({"e": get_evaluation(b), "c": is_check(b, b.to_move), "k": k, "kids": [], "caps": caps});
        idx as u64 + 1
    }
    // full-width node searched to remaining depth d; path = repetition counts along the line (incl. history)
    fn node(&mut self, b: &BoardState, d: u8, path: &mut HashMap<u64, u8>) -> u64 {
        if self.nodes.len() >= self.cap {
            self.over = true;
            return 0;
        }
        let chk = is_check(b, b.to_move);
        let k = self.kid(b.zobrist_key);
        if *path.get(&b.zobrist_key).unwrap_or(&0) >= 2 {
            // scored as a draw without looking further: a bare node is enough
            let idx = self.nodes.len();
            self.nodes.push(json!({"e": get_evaluation(b), "c": chk, "k": k, "kids": [], "caps": [], "rep": true}));
            return idx as u64 + 1;
        }
        if d == 0 && !chk {
            // horizon: quiescence DAG; a separate node, because it also carries this line's identity
            let idx = self.nodes.len();
            self.nodes.push(Value::Null);
            let caps: Vec<u64> = self.ordered(b, MoveGenerationMode::CapturesOnly).iter().map(|c| self.qnode(c)).collect();
            self.nodes[idx] = json!({"e": get_evaluation(b), "c": chk, "k": k, "kids": [], "caps": caps});
            return idx as u64 + 1;
        }
        let dd = if d == 0 { 1 } else { d };
        let idx = self.nodes.len();
        self.nodes.push(Value::Null);
        *path.entry(b.zobrist_key).or_insert(0) += 1;
        let kids: Vec<u64> = self.ordered(b, MoveGenerationMode::AllMoves).iter().map(|c| self.node(c, dd - 1, path)).collect();
        *path.get_mut(&b.zobrist_key).unwrap() -= 1;
        // capture successors too: the same node is a horizon node of the shallower iterations
        let caps: Vec<u64> = self.ordered(b, MoveGenerationMode::CapturesOnly).iter().map(|c| self.qnode(c)).collect();
        self.nodes[idx] = json!({"e": get_evaluation(b), "c": chk, "k": k, "kids": kids, "caps": caps, "full": true});
        idx as u64 + 1
    }
}

pub fn tree_events(t: &Tables, cmds: &[String], dir: &str, nshards: usize, depth: u8, budget: u64, cap: usize) -> Value {
    let per: Vec<(Option<Value>, Value)> = par_map(cmds, |_pi, cmd| {
        let sc = match scenario(t, cmd) {
            Some(s) => s,
            None => return (None, json!({"cmd": cmd, "skipped": "position command failed"})),
        };
        let full = run_search(t, &sc.board, &sc.table, budget);
        // deepest completed depth <= depth
        let mut d = depth as i64;
        let mut kmax = None;
        while d >= 1 {
            kmax = horizon(&full, d);
            if kmax.is_some() {
                break;
            }
            d -= 1;
        }
        if kmax.is_none() {
            return (None, json!({"cmd": cmd, "skipped": "no completed depth inside the budget"}));
        }
        // record the tree for depth d (fall back to shallower depths when it exceeds the cap)
        let mut dd = d as u8;
        let mut tree = None;
        while dd >= 1 {
            let mut rec = Rec { t, nodes: Vec::new(), keyid: HashMap::new(), qmemo: HashMap::new(), cap, over: false };
            let mut path: HashMap<u64, u8> = sc.table.table.iter().map(|(k, v)| (*k, *v)).collect();
            let roots_b = rec.ordered(&sc.board, MoveGenerationMode::AllMoves);
            let roots: Vec<u64> = roots_b.iter().map(|c| rec.node(c, dd - 1, &mut path)).collect();
            if !rec.over {
                let rep0: Vec<Value> = sc.table.table.iter().filter(|(k, c)| **c != 0 && rec.keyid.contains_key(*k))
                    .map(|(k, c)| json!([rec.keyid[k], c])).collect();
                let root_txt: Vec<String> = roots_b.iter().map(|b| printed_move(b)).collect();
                tree = Some((json!({"nodes": rec.nodes, "roots": roots, "rep0": rep0, "root_txt": root_txt}), rec.keyid.len()));
                break;
            }
            dd -= 1;
        }
        let (tree, nkeys) = match tree {
            Some(x) => x,
            None => return (None, json!({"cmd": cmd, "skipped": "tree exceeds the node cap even at depth 1"})),
        };
        let kd = horizon(&full, dd as i64).unwrap_or(0);
        let infos: Vec<Value> = full.infos.iter().filter(|i| i["q"].as_u64().unwrap_or(0) <= kd && i["depth"].as_i64().unwrap_or(99) <= dd as i64).cloned().collect();
        // boards handed over before the first line of a deeper iteration (which line of which depth a board belongs to is
        // decided by the clock-query order in the specification, not by position in the list: an engine may report every
        // improvement or one line per iteration)
        let sends: Vec<Value> = full.sends.iter().filter(|i| i["q"].as_u64().unwrap_or(0) < kd).cloned().collect();
        let nn = tree["nodes"].as_array().unwrap().len();
        (Some(json!({"ev": "stree", "cmd": cmd, "root": t.state(&sc.board), "root_fen": to_fen(&sc.board, 0, 1), "D": dd, "tree": tree,
                     "infos": infos, "sends": sends, "panic": full.panic})),
         json!({"cmd": cmd, "D": dd, "nodes": nn, "keys": nkeys, "history": sc.table.table.len() > 1}))
    });
    let mut out = Shards::new(dir, "search", nshards);
    let mut summary = Vec::new();
    let mut n = 0usize;
    let mut load = vec![0usize; nshards];
    for (ev, s) in per {
        if let Some(e) = ev {
            let shard = (0..nshards).min_by_key(|i| load[*i]).unwrap();
            load[shard] += s["nodes"].as_u64().unwrap_or(1) as usize;
            out.emit(shard, &e);
            n += 1;
        }
        summary.push(s);
    }
    out.finish();
    json!({"trees": n, "scenarios": summary})
}

// ---------------------------------------------------------------------------------------------
// scenario generation (inputs only: every verdict on them is TLC's)
// ---------------------------------------------------------------------------------------------
fn random_endgame(t: &Tables, rng: &mut StdRng, strong: &[u32], weak: &[u32]) -> Option<BoardState> {
    // strong side white or black at random, side to move at random
    let flip = rng.gen_bool(0.5);
    let mut sqs: Vec<u32> = (1..=64).collect();
    for i in (1..64).rev() {
        let j = rng.gen_range(0..=i);
        sqs.swap(i, j);
    }
    let mut pcs = vec![];
    let mut i = 0;
    for k in strong {
        pcs.push((sqs[i], if flip { k + 6 } else { *k }));
        i += 1;
    }
    for k in weak {
        pcs.push((sqs[i], if flip { *k } else { k + 6 }));
        i += 1;
    }
    // no pawns on first / last rank
    if pcs.iter().any(|(s, c)| (*c == 1 || *c == 7) && (*s <= 8 || *s >= 57)) {
        return None;
    }
    let stm = rng.gen_range(0..2u32);
    let b = crate::misc::board_from(t, &pcs, stm, 0, 0);
    // the side not to move must not be in check, kings not adjacent
    let other = if stm == 0 { PieceColor::Black } else { PieceColor::White };
    if is_check(&b, other) {
        return None;
    }
    Some(b)
}

fn has_mate_in_one(t: &Tables, b: &BoardState) -> (usize, usize) {
    let moves = generate_moves(b, MoveGenerationMode::AllMoves, &t.hasher);
    let mating = moves.iter().filter(|m| is_check(m, m.to_move) && generate_moves(m, MoveGenerationMode::AllMoves, &t.hasher).is_empty()).count();
    (mating, moves.len())
}

fn allows_mate(t: &Tables, b: &BoardState) -> (usize, usize) {
    // number of moves after which the opponent has a mate in one
    let moves = generate_moves(b, MoveGenerationMode::AllMoves, &t.hasher);
    let bad = moves.iter().filter(|m| has_mate_in_one(t, m).0 > 0).count();
    (bad, moves.len())
}

// a third-repetition scenario from p0: X a-b, Y c-d, X b-a, Y d-c, X a-b, Y c-d, X b-a; then Y to move can repeat
fn repetition_cycle(t: &Tables, b0: &BoardState, rng: &mut StdRng) -> Option<Vec<String>> {
    let rev = |s: &str| format!("{}{}", &s[2..4], &s[0..2]);
    let mut m1s = generate_moves(b0, MoveGenerationMode::AllMoves, &t.hasher);
    for i in (1..m1s.len()).rev() {
        let j = rng.gen_range(0..=i);
        m1s.swap(i, j);
    }
    // cycles whose first move gives check first (perpetual checks: the check extension carries such a line one ply deeper)
    m1s.sort_by_key(|m| !is_check(m, m.to_move));
    for p1 in &m1s {
        let t1 = printed_move(p1);
        if t1.len() != 4 {
            continue;
        }
        let mut m2s = generate_moves(p1, MoveGenerationMode::AllMoves, &t.hasher);
        for i in (1..m2s.len()).rev() {
            let j = rng.gen_range(0..=i);
            m2s.swap(i, j);
        }
        for p2 in &m2s {
            let t2 = printed_move(p2);
            if t2.len() != 4 {
                continue;
            }
            let m3s = generate_moves(p2, MoveGenerationMode::AllMoves, &t.hasher);
            if let Some(p3) = m3s.iter().find(|m| printed_move(m) == rev(&t1)) {
                let m4s = generate_moves(p3, MoveGenerationMode::AllMoves, &t.hasher);
                if let Some(p4) = m4s.iter().find(|m| printed_move(m) == rev(&t2)) {
                    if t.scratch_key(p4) == t.scratch_key(b0) && p4.board == b0.board {
                        // two and a half cycles: 3 plies = second occurrence on offer, 7 = third, 11 = fourth
                        return Some(vec![t1.clone(), t2.clone(), rev(&t1), rev(&t2), t1.clone(), t2.clone(), rev(&t1), rev(&t2), t1.clone(), t2.clone(), rev(&t1)]);
                    }
                }
            }
        }
    }
    None
}

// a perpetual check against the side that is AHEAD: X (to move in b0, clearly behind in the engine's own evaluation) checks,
// Y's king steps aside, X checks back, Y's king steps back = b0.  After t1 t2 rt1 rt2 t1 t2 rt1 Y is in check with at most
// two legal replies, one of them (rt2) into a position that has occurred twice.  The side that is ahead has nothing but the
// repetition: a search that values the repetition differently for the side that is ahead (contempt) shows a final score
// below zero here and nowhere else.
fn perpetual_cycle(t: &Tables, b0: &BoardState, forced: bool) -> Option<Vec<String>> {
    let rev = |s: &str| format!("{}{}", &s[2..4], &s[0..2]);
    if get_evaluation(b0) > -200 {
        return None;
    }
    let m1s = generate_moves(b0, MoveGenerationMode::AllMoves, &t.hasher);
    for p1 in m1s.iter().filter(|m| is_check(m, m.to_move)) {
        let t1 = printed_move(p1);
        if t1.len() != 4 {
            continue;
        }
        let m2s = generate_moves(p1, MoveGenerationMode::AllMoves, &t.hasher);
        if m2s.is_empty() || m2s.len() > (if forced { 1 } else { 3 }) {
            continue;
        }
        for p2 in &m2s {
            let t2 = printed_move(p2);
            if t2.len() != 4 || p2.board.iter().flatten().filter(|s| matches!(s, Square::Full(_))).count() != b0.board.iter().flatten().filter(|s| matches!(s, Square::Full(_))).count() {
                continue;
            }
            let m3s = generate_moves(p2, MoveGenerationMode::AllMoves, &t.hasher);
            if let Some(p3) = m3s.iter().find(|m| printed_move(m) == rev(&t1)) {
                if !is_check(p3, p3.to_move) {
                    continue;
                }
                let m4s = generate_moves(p3, MoveGenerationMode::AllMoves, &t.hasher);
                // the side that is ahead has nothing but king steps that take nothing (no capture of the checker, no interposition)
                let nmen = |b: &BoardState| b.board.iter().flatten().filter(|s| matches!(s, Square::Full(_))).count();
                let king_step = |m: &BoardState| match m.last_move {
                    Some((_, to)) => matches!(m.board[to.0][to.1], Square::Full(p) if p.kind == PieceKind::King) && nmen(m) == nmen(p3),
                    None => false,
                };
                if m4s.len() > (if forced { 1 } else { 3 }) || !m4s.iter().all(|m| king_step(m)) {
                    continue;
                }
                if let Some(p4) = m4s.iter().find(|m| printed_move(m) == rev(&t2)) {
                    if t.scratch_key(p4) == t.scratch_key(b0) && p4.board == b0.board && get_evaluation(p3) > 200 {
                        return Some(vec![t1.clone(), t2.clone(), rev(&t1), rev(&t2), t1.clone(), t2.clone(), rev(&t1)]);
                    }
                }
            }
        }
    }
    None
}

// a cycle in which the move INTO the twice-seen position is the favourite of the side that is offered it: X a-b (any
// reversible move), Y c-d = what Y's own search plays in that position without a history, X b-a, Y d-c, twice, then X a-b
// once more: Y is to move with its favourite leading to a position that has occurred twice.  A search that values the
// repetition by searching on (instead of as a draw) reports the favourite's ordinary score.
fn greedy_cycle(t: &Tables, b0: &BoardState, rng: &mut StdRng) -> Option<Vec<String>> {
    let rev = |s: &str| format!("{}{}", &s[2..4], &s[0..2]);
    let men = |b: &BoardState| b.board.iter().flatten().filter(|s| matches!(s, Square::Full(_))).count();
    let is_pawn_move = |b: &BoardState, m: &BoardState| match m.last_move {
        Some((f, _)) => matches!(b.board[f.0][f.1], Square::Full(p) if p.kind == PieceKind::Pawn),
        None => true,
    };
    let mut m1s = generate_moves(b0, MoveGenerationMode::AllMoves, &t.hasher);
    for i in (1..m1s.len()).rev() {
        let j = rng.gen_range(0..=i);
        m1s.swap(i, j);
    }
    for p1 in m1s.iter().take(6) {
        let t1 = printed_move(p1);
        if t1.len() != 4 || men(p1) != men(b0) || is_pawn_move(b0, p1) {
            continue;
        }
        let fav = run_search(t, p1, &DrawTable::new(), 4000);
        let t2 = match fav.sends.last() {
            Some(x) => x["txt"].as_str().unwrap_or("").to_string(),
            None => continue,
        };
        if fav.panic || t2.len() != 4 {
            continue;
        }
        let m2s = generate_moves(p1, MoveGenerationMode::AllMoves, &t.hasher);
        let p2 = match m2s.iter().find(|m| printed_move(m) == t2) {
            Some(p) => p,
            None => continue,
        };
        if men(p2) != men(p1) || is_pawn_move(p1, p2) {
            continue;
        }
        let m3s = generate_moves(p2, MoveGenerationMode::AllMoves, &t.hasher);
        if let Some(p3) = m3s.iter().find(|m| printed_move(m) == rev(&t1)) {
            let m4s = generate_moves(p3, MoveGenerationMode::AllMoves, &t.hasher);
            if let Some(p4) = m4s.iter().find(|m| printed_move(m) == rev(&t2)) {
                if t.scratch_key(p4) == t.scratch_key(b0) && p4.board == b0.board {
                    return Some(vec![t1.clone(), t2.clone(), rev(&t1), rev(&t2), t1.clone(), t2.clone(), rev(&t1), rev(&t2), t1.clone()]);
                }
            }
        }
    }
    None
}

pub fn scenarios(t: &Tables, seeds: &[String], seed: u64, n_small: usize, n_mate: usize, n_rep: usize, n_game: usize, n_term: usize, n_fam: usize, n_deep: usize) -> Value {
    let mut rng = StdRng::seed_from_u64(seed);
    let mut out: Vec<Value> = Vec::new();
    let kits: [(&[u32], &[u32]); 8] = [(&[6, 5], &[6]), (&[6, 4], &[6]), (&[6, 4, 4], &[6]), (&[6, 5], &[6, 4]), (&[6, 4, 1], &[6, 1]),
                                        (&[6, 3, 2], &[6, 1]), (&[6, 1, 1], &[6, 2]), (&[6, 5, 1], &[6, 3, 1])];
    // "deep": king + queen / rook against the bare king, the bare king to move after a history in which it can step into a
    // position seen twice: the draw is found at once and every alternative is refuted at once, so iterative deepening
    // runs to its last iteration (99) within a few hundred thousand nodes - with lines that go past ply 99
    {
        let mut tries = 0;
        let mut count = 0;
        while count < n_deep && tries < 100000 {
            tries += 1;
            let (s, w) = kits[rng.gen_range(0..2)];
            if let Some(b0) = random_endgame(t, &mut rng, s, w) {
                // the strong side moves first in b0, so that the bare king is the one who can repeat after 7 plies
                let mut strong = 0;
                for row in BOARD_START..BOARD_END {
                    for col in BOARD_START..BOARD_END {
                        if let Square::Full(p) = b0.board[row][col] {
                            if p.color == b0.to_move {
                                strong += 1;
                            }
                        }
                    }
                }
                if strong < 2 || is_check(&b0, b0.to_move) {
                    continue;
                }
                if let Some(cyc) = repetition_cycle(t, &b0, &mut rng) {
                    out.push(json!({"tag": "deep", "cmd": format!("position fen {} moves {}", to_fen(&b0, 0, 1), cyc[..7].join(" "))}));
                    count += 1;
                }
            }
        }
    }
    // small positions without history
    let mut tries = 0;
    let mut count = 0;
    while count < n_small && tries < 100000 {
        tries += 1;
        let (s, w) = kits[rng.gen_range(0..kits.len())];
        if let Some(b) = random_endgame(t, &mut rng, s, w) {
            if generate_moves(&b, MoveGenerationMode::AllMoves, &t.hasher).is_empty() {
                continue;
            }
            out.push(json!({"tag": "small", "cmd": format!("position fen {}", to_fen(&b, 0, 1))}));
            count += 1;
        }
    }
    // mate in one / avoidable mate
    let (mut m1, mut av) = (0, 0);
    tries = 0;
    while (m1 < n_mate || av < n_mate) && tries < 400000 {
        tries += 1;
        let (s, w) = kits[rng.gen_range(0..kits.len())];
        if let Some(b) = random_endgame(t, &mut rng, s, w) {
            let (mating, total) = has_mate_in_one(t, &b);
            if total == 0 {
                continue;
            }
            if mating > 0 && mating < total && m1 < n_mate {
                out.push(json!({"tag": "mate", "cmd": format!("position fen {}", to_fen(&b, 0, 1))}));
                m1 += 1;
            } else if mating == 0 && av < n_mate {
                let (bad, tot) = allows_mate(t, &b);
                if bad > 0 && bad < tot {
                    out.push(json!({"tag": "mate", "cmd": format!("position fen {}", to_fen(&b, 0, 1))}));
                    av += 1;
                }
            }
        }
    }
    // the mate in one is a CASTLING move or an EN-PASSANT capture (the check comes from the rook that castled / is uncovered by
    // the pawn that disappears, not from the piece the move descriptor names), or such a move gives check and something
    // else mates: rejection sampling over random placements around the fixed skeleton of the special move
    for kind in 0..2 {
        count = 0;
        tries = 0;
        while count < (n_mate + 1) / 2 && tries < 400000 {
            tries += 1;
            let flip = rng.gen_bool(0.5);
            let col = |c: u32| if flip { c + 6 } else { c };
            let opp = |c: u32| if flip { c } else { c + 6 };
            let mir = |s: u32| if flip { 8 * (7 - (s - 1) / 8) + (s - 1) % 8 + 1 } else { s };
            let mut used = std::collections::HashSet::new();
            let mut pcs: Vec<(u32, u32)> = Vec::new();
            let mut put = |pcs: &mut Vec<(u32, u32)>, s: u32, c: u32| -> bool {
                if !used.insert(s) {
                    return false;
                }
                pcs.push((s, c));
                true
            };
            let (cr, ep);
            if kind == 0 {
                // own king e1, one rook on its corner with the right; enemy king on the first three ranks
                let kingside = rng.gen_bool(0.5);
                put(&mut pcs, mir(5), col(6));
                put(&mut pcs, mir(if kingside { 8 } else { 1 }), col(4));
                cr = match (flip, kingside) { (false, true) => 1, (false, false) => 2, (true, true) => 4, (true, false) => 8 };
                ep = 0;
                // the enemy king on the file the rook lands on, far enough not to be on a line with e1 / g1 / c1
                put(&mut pcs, mir((if kingside { 6 } else { 4 }) + 8 * rng.gen_range(3..=7u32)), opp(6));
            } else {
                // own pawn on its fifth rank, enemy pawn just double-stepped next to it
                let f = rng.gen_range(1..=8u32);
                let vf = if f == 1 { 2 } else if f == 8 { 7 } else if rng.gen_bool(0.5) { f - 1 } else { f + 1 };
                put(&mut pcs, mir(32 + f), col(1));
                put(&mut pcs, mir(32 + vf), opp(1));
                cr = 0;
                ep = mir(40 + vf);
                put(&mut pcs, mir(rng.gen_range(1..=64)), col(6));
                put(&mut pcs, mir(rng.gen_range(33..=64)), opp(6));
            }
            for _ in 0..rng.gen_range(1..=3) {
                put(&mut pcs, rng.gen_range(1..=64), col([5u32, 4, 3, 3, 2][rng.gen_range(0..5)]));
            }
            for _ in 0..rng.gen_range(0..=4) {
                let c = [1u32, 1, 1, 2, 3, 4][rng.gen_range(0..6)];
                let sq = rng.gen_range(1..=64u32);
                if c == 1 && (sq <= 8 || sq >= 57) {
                    continue;
                }
                put(&mut pcs, sq, opp(c));
            }
            if pcs.iter().filter(|(_, c)| *c == 6).count() != 1 || pcs.iter().filter(|(_, c)| *c == 12).count() != 1 {
                continue;
            }
            let stm = if flip { 1 } else { 0 };
            let b = crate::misc::board_from(t, &pcs, stm, cr, ep);
            let other = if stm == 0 { PieceColor::Black } else { PieceColor::White };
            if is_check(&b, other) || (kind == 1 && {
                // the double step must have been possible: origin and target squares of the victim empty
                let vsq = sq_of(b.pawn_double_move.unwrap());
                let org = if flip { vsq - 8 } else { vsq + 8 };
                pcs.iter().any(|(s, _)| *s == vsq || *s == org)
            }) {
                continue;
            }
            let ms = generate_moves(&b, MoveGenerationMode::AllMoves, &t.hasher);
            // castling (king moves two files) or en-passant capture (pawn changes file onto an empty square) that gives
            // check although neither the square the named piece left nor the one it reached is on a line with, or a
            // knight's jump from, the enemy king: the check comes from the rook / through the vanished pawn's square
            let ek = if stm == 0 { b.black_king_location } else { b.white_king_location };
            let aligned = |p: Point| {
                let (dr, dc) = ((p.0 as i32 - ek.0 as i32).abs(), (p.1 as i32 - ek.1 as i32).abs());
                dr == 0 || dc == 0 || dr == dc
            };
            let special_checks: Vec<&BoardState> = ms.iter().filter(|m| match m.last_move {
                Some((f, to)) => {
                    let mover = b.board[f.0][f.1];
                    let castle = matches!(mover, Square::Full(p) if p.kind == PieceKind::King) && (f.1 as i32 - to.1 as i32).abs() == 2;
                    let enp = matches!(mover, Square::Full(p) if p.kind == PieceKind::Pawn) && f.1 != to.1 && b.board[to.0][to.1] == Square::Empty;
                    let (dr, dc) = ((to.0 as i32 - ek.0 as i32).abs(), (to.1 as i32 - ek.1 as i32).abs());
                    (castle || enp) && m.pawn_promotion.is_none() && !aligned(f) && !aligned(to) && dr * dc != 2 && is_check(m, m.to_move)
                }
                None => false,
            }).collect();
            if special_checks.is_empty() {
                continue;
            }
            out.push(json!({"tag": "mate", "cmd": format!("position fen {}", to_fen(&b, 0, 1))}));
            count += 1;
        }
    }
    // the mate in one is an UNDER-promotion while the queen promotion of the same pawn to the same square is not mate (the four
    // promotion boards of one pawn share their from / to squares: whatever identifies "the move" by those alone plays the queen)
    count = 0;
    tries = 0;
    while count < (n_mate + 1) / 2 && tries < 3_000_000 {
        tries += 1;
        let c = rng.gen_range(0..2u32);
        let mut used = std::collections::HashSet::new();
        let mut pcs: Vec<(u32, u32)> = Vec::new();
        let mut put = |pcs: &mut Vec<(u32, u32)>, s: u32, k: u32| {
            if used.insert(s) {
                pcs.push((s, k));
            }
        };
        let pf = rng.gen_range(1..=8u32);
        let psq = if c == 0 { 48 + pf } else { 8 + pf };
        put(&mut pcs, psq, 1 + 6 * c);
        // the enemy king a knight's jump or a line away from the promotion squares, boxed in by a few of its own men
        let ek = if c == 0 { rng.gen_range(41..=64u32) } else { rng.gen_range(1..=24u32) };
        put(&mut pcs, ek, 6 + 6 * (1 - c));
        put(&mut pcs, rng.gen_range(1..=64), 6 + 6 * c);
        for _ in 0..rng.gen_range(1..=4) {
            let (ef, er) = (((ek - 1) % 8) as i32 + rng.gen_range(-1..=1), ((ek - 1) / 8) as i32 + rng.gen_range(-1..=1));
            if (0..8).contains(&ef) && (0..8).contains(&er) {
                let sq = (8 * er + ef + 1) as u32;
                let k = [1u32, 1, 2, 3, 4][rng.gen_range(0..5)];
                if k == 1 && (sq <= 8 || sq >= 57) {
                    continue;
                }
                put(&mut pcs, sq, k + 6 * (1 - c));
            }
        }
        for _ in 0..rng.gen_range(0..=3) {
            put(&mut pcs, rng.gen_range(1..=64), [2u32, 3, 4, 5][rng.gen_range(0..4)] + 6 * c);
        }
        if pcs.iter().filter(|(_, k)| *k == 6).count() != 1 || pcs.iter().filter(|(_, k)| *k == 12).count() != 1 {
            continue;
        }
        let b = crate::misc::board_from(t, &pcs, c, 0, 0);
        let other = if c == 0 { PieceColor::Black } else { PieceColor::White };
        if is_check(&b, other) {
            continue;
        }
        let ms = generate_moves(&b, MoveGenerationMode::AllMoves, &t.hasher);
        let mates = |m: &BoardState| is_check(m, m.to_move) && generate_moves(m, MoveGenerationMode::AllMoves, &t.hasher).is_empty();
        let under = ms.iter().any(|m| match m.pawn_promotion {
            Some(p) if p.kind != PieceKind::Queen && mates(m) => {
                !ms.iter().any(|q| q.last_move == m.last_move && matches!(q.pawn_promotion, Some(pq) if pq.kind == PieceKind::Queen) && mates(q))
            }
            _ => false,
        });
        if under {
            out.push(json!({"tag": "mate", "cmd": format!("position fen {}", to_fen(&b, 0, 1))}));
            count += 1;
        }
    }
    if std::env::var("VERIF_SCEN_STATS").is_ok() {
        eprintln!("under-promotion mates: {} found in {} tries", count, tries);
    }
    // two mates of different length: a quiet mate in one AND a capture (searched first by the ordering) that also mates, but
    // later - a root loop that stops at the first mate it meets reports the longer one (seeded C12-9)
    count = 0;
    tries = 0;
    while count < (n_mate + 1) / 2 && tries < 60000 {
        tries += 1;
        let strong: &[u32] = [&[6u32, 5, 4][..], &[6, 4, 4], &[6, 5, 2], &[6, 5, 5], &[6, 4, 4, 2]][rng.gen_range(0..5)];
        let weak: &[u32] = [&[6u32, 1][..], &[6, 2], &[6, 1, 1], &[6, 3], &[6, 4]][rng.gen_range(0..5)];
        if let Some(b) = random_endgame(t, &mut rng, strong, weak) {
            let men = |x: &BoardState| x.board.iter().flatten().filter(|q| matches!(q, Square::Full(_))).count();
            let ms = generate_moves(&b, MoveGenerationMode::AllMoves, &t.hasher);
            let quiet_mate = ms.iter().any(|m| men(m) == men(&b) && is_check(m, m.to_move) && generate_moves(m, MoveGenerationMode::AllMoves, &t.hasher).is_empty());
            if !quiet_mate {
                continue;
            }
            let mut sv = Solver { t, memo: HashMap::new(), work: 0, cap: 200_000 };
            let slow_capture = ms.iter().any(|m| men(m) < men(&b) && !sv.d(m, 0) && sv.d(m, 1));
            if slow_capture {
                out.push(json!({"tag": "mate", "cmd": format!("position fen {}", to_fen(&b, 0, 1))}));
                count += 1;
            }
        }
    }
    // ... and the variant that shows at depth 1 already: the capture gives check, every reply to it is a check to the mover,
    // and each of them is answered by mate - the check extensions carry that line to its end inside the first iteration, so the
    // longer mate is found before the quiet mate in one is looked at
    count = 0;
    tries = 0;
    while count < (n_mate / 2 + 1).min(24) && tries < 3_000_000 {
        tries += 1;
        let strong: &[u32] = [&[6u32, 5, 4, 4][..], &[6, 4, 4, 2, 2], &[6, 5, 4, 2], &[6, 5, 5, 4], &[6, 4, 4, 3, 2]][rng.gen_range(0..5)];
        let weak: &[u32] = [&[6u32, 5, 4, 1, 1][..], &[6, 5, 1, 1], &[6, 4, 4, 1, 1], &[6, 5, 4], &[6, 5, 3, 1]][rng.gen_range(0..5)];
        if let Some(b) = random_endgame(t, &mut rng, strong, weak) {
            if is_check(&b, b.to_move) {
                continue;
            }
            let men = |x: &BoardState| x.board.iter().flatten().filter(|q| matches!(q, Square::Full(_))).count();
            let nomoves = |x: &BoardState| generate_moves(x, MoveGenerationMode::AllMoves, &t.hasher).is_empty();
            let ms = generate_moves(&b, MoveGenerationMode::AllMoves, &t.hasher);
            if !ms.iter().any(|m| men(m) == men(&b) && is_check(m, m.to_move) && nomoves(m)) {
                continue;
            }
            let chain = ms.iter().any(|m| {
                if men(m) == men(&b) || !is_check(m, m.to_move) {
                    return false;
                }
                let rs = generate_moves(m, MoveGenerationMode::AllMoves, &t.hasher);
                !rs.is_empty() && rs.iter().all(|r| is_check(r, r.to_move) && generate_moves(r, MoveGenerationMode::AllMoves, &t.hasher).iter().any(|x| is_check(x, x.to_move) && nomoves(x)))
            });
            if chain {
                out.push(json!({"tag": "mate", "cmd": format!("position fen {}", to_fen(&b, 0, 1))}));
                count += 1;
            }
        }
    }
    if std::env::var("VERIF_SCEN_STATS").is_ok() {
        eprintln!("check-chain two-mates: {} found in {} tries", count, tries);
    }
    // exchange batteries: one square held by a pawn, attacked and defended several times over (doubled rooks and a queen on
    // its file, bishops on its diagonals, knights, pawns): the capture search runs ten and more plies deep on that square and
    // who has the last word decides the value (seeded C12-10: a capture search that stops after six plies)
    count = 0;
    tries = 0;
    while count < n_fam / 3 + 1 && tries < 20000 && n_fam > 0 {
        tries += 1;
        let mut used = std::collections::HashSet::new();
        let mut pcs: Vec<(u32, u32)> = Vec::new();
        let tf = rng.gen_range(3..=6u32); // file c..f
        let tr = rng.gen_range(4..=5u32);
        let tsq = 8 * (tr - 1) + tf;
        let att = rng.gen_range(0..2u32); // the attacking colour (to move)
        let def = 1 - att;
        let mut put = |pcs: &mut Vec<(u32, u32)>, f: i32, r: i32, c: u32| -> bool {
            if !(1..=8).contains(&f) || !(1..=8).contains(&r) {
                return false;
            }
            let sq = (8 * (r - 1) + f) as u32;
            if (c % 6 == 1) && (r == 1 || r == 8) {
                return false;
            }
            if !used.insert(sq) {
                return false;
            }
            pcs.push((sq, c));
            true
        };
        let (tfi, tri) = (tf as i32, tr as i32);
        put(&mut pcs, tfi, tri, 1 + 6 * def);
        // along the file: the attacker from its own side of the board, the defender from the other
        let adir = if att == 0 { -1 } else { 1 };
        for (side, dir) in [(att, adir), (def, -adir)] {
            let n = rng.gen_range(2..=3);
            let mut r = tri + dir * rng.gen_range(1..=2);
            for i in 0..n {
                let kind = if i == 1 && rng.gen_bool(0.4) { 5 } else { 4 };
                put(&mut pcs, tfi, r, kind + 6 * side);
                r += dir;
            }
            // a bishop (or queen) on a diagonal, a knight, a pawn
            if rng.gen_bool(0.8) {
                let k = rng.gen_range(1..=3);
                let df = if rng.gen_bool(0.5) { 1 } else { -1 };
                put(&mut pcs, tfi + df * k, tri + dir * k, [3u32, 3, 5][rng.gen_range(0..3)] + 6 * side);
            }
            if rng.gen_bool(0.8) {
                let (df, dr) = [(1, 2), (-1, 2), (2, 1), (-2, 1)][rng.gen_range(0..4)];
                put(&mut pcs, tfi + df, tri + dir * dr, 2 + 6 * side);
            }
            if rng.gen_bool(0.7) {
                let df = if rng.gen_bool(0.5) { 1 } else { -1 };
                put(&mut pcs, tfi + df, tri + dir, 1 + 6 * side);
            }
            // the king tucked away on its back rank behind two pawns
            let kr = if (side == att) == (adir == -1) { 1 } else { 8 };
            let kf = if rng.gen_bool(0.5) { 7 } else { 2 };
            put(&mut pcs, kf, kr, 6 + 6 * side);
            let pr = if kr == 1 { 2 } else { 7 };
            put(&mut pcs, kf, pr, 1 + 6 * side);
            put(&mut pcs, kf + 1, pr, 1 + 6 * side);
        }
        if pcs.iter().filter(|(_, c)| *c == 6).count() != 1 || pcs.iter().filter(|(_, c)| *c == 12).count() != 1 {
            continue;
        }
        let b = crate::misc::board_from(t, &pcs, att, 0, 0);
        let other = if att == 0 { PieceColor::Black } else { PieceColor::White };
        if is_check(&b, other) || is_check(&b, b.to_move) {
            continue;
        }
        // at least three attackers and three defenders of the square
        let caps = generate_moves(&b, MoveGenerationMode::CapturesOnly, &t.hasher);
        let on_t = caps.iter().filter(|m| m.last_move.map_or(false, |(_, to)| sq_of(to) == tsq)).count();
        // defenders: the men of the other side that could take back on the square
        let mut pcs2 = pcs.clone();
        pcs2[0].1 = 1 + 6 * att;
        let b2 = crate::misc::board_from(t, &pcs2, def, 0, 0);
        let back = generate_moves(&b2, MoveGenerationMode::CapturesOnly, &t.hasher).iter().filter(|m| m.last_move.map_or(false, |(_, to)| sq_of(to) == tsq)).count();
        if on_t < 3 || back < 3 {
            continue;
        }
        out.push(json!({"tag": "fam", "cmd": format!("position fen {}", to_fen(&b, 0, 1))}));
        count += 1;
    }
    // a move of the mover stalemates the opponent (a stalemate one ply away must never be announced as a mate)
    count = 0;
    tries = 0;
    while count < n_mate / 2 && tries < 400000 {
        tries += 1;
        let (s, w) = kits[rng.gen_range(0..kits.len())];
        if let Some(b) = random_endgame(t, &mut rng, s, w) {
            let ms = generate_moves(&b, MoveGenerationMode::AllMoves, &t.hasher);
            if ms.iter().any(|m| !is_check(m, m.to_move) && generate_moves(m, MoveGenerationMode::AllMoves, &t.hasher).is_empty()) {
                out.push(json!({"tag": "mate", "cmd": format!("position fen {}", to_fen(&b, 0, 1))}));
                count += 1;
            }
        }
    }
    // mate in one for X in P0, reached again by Y after X a-b, Y c-d, X b-a: Y must not step back into P0 (second
    // occurrence, not a draw) when it has a safe alternative
    count = 0;
    tries = 0;
    while count < n_mate / 2 && tries < 400000 {
        tries += 1;
        let (s, w) = kits[rng.gen_range(0..kits.len())];
        if let Some(b) = random_endgame(t, &mut rng, s, w) {
            let (mating, total) = has_mate_in_one(t, &b);
            if mating == 0 || total == 0 {
                continue;
            }
            if let Some(cyc) = repetition_cycle(t, &b, &mut rng) {
                out.push(json!({"tag": "mate", "cmd": format!("position fen {} moves {}", to_fen(&b, 0, 1), cyc[..3].join(" "))}));
                count += 1;
            }
        }
    }
    // members of the geometric families (castling / en passant with sliders on the lines / promotion), after the
    // special first move when there is one: discovered checks by en passant, checks by castling and promotion
    count = 0;
    tries = 0;
    while count < n_fam && tries < 100000 {
        tries += 1;
        if let Some(b) = crate::rules::family_member(t, &mut rng, tries) {
            let ms = generate_moves(&b, MoveGenerationMode::AllMoves, &t.hasher);
            if ms.is_empty() {
                continue;
            }
            let specials: Vec<&BoardState> = ms.iter().filter(|m| crate::rules::is_special(&b, m)).collect();
            let fen = to_fen(&b, 0, 1);
            let cmd = if !specials.is_empty() && rng.gen_bool(0.7) {
                let m = specials[rng.gen_range(0..specials.len())];
                if generate_moves(m, MoveGenerationMode::AllMoves, &t.hasher).is_empty() {
                    continue;
                }
                format!("position fen {} moves {}", fen, printed_move(m))
            } else {
                format!("position fen {}", fen)
            };
            out.push(json!({"tag": "fam", "cmd": cmd}));
            count += 1;
        }
    }
    // a special move (castling, en passant, promotion) that GIVES CHECK, one ply before it: at depth 1 the position after it
    // is a horizon node in check (the check is given by the rook that castled / uncovered by the pawn that disappeared,
    // not by the piece the move descriptor names), at depth 2 it sits one ply deeper after each reply that allows it
    count = 0;
    tries = 0;
    while count < n_fam / 2 && tries < 200000 {
        tries += 1;
        if let Some(b) = crate::rules::family_member(t, &mut rng, tries) {
            let ms = generate_moves(&b, MoveGenerationMode::AllMoves, &t.hasher);
            let checking = ms.iter().any(|m| crate::rules::is_special(&b, m) && m.pawn_promotion.is_none() && is_check(m, m.to_move)
                                         && !generate_moves(m, MoveGenerationMode::AllMoves, &t.hasher).is_empty());
            if checking {
                out.push(json!({"tag": "fam", "cmd": format!("position fen {}", to_fen(&b, 0, 1))}));
                count += 1;
            }
        }
    }
    // promotion races: pawns one step from promotion on both sides with officers to capture on the last ranks and a
    // large material imbalance (capture-promotions deep in quiescence swing the score by more than a queen)
    count = 0;
    tries = 0;
    while count < n_fam / 2 && tries < 100000 {
        tries += 1;
        let mut used = std::collections::HashSet::new();
        let mut pcs: Vec<(u32, u32)> = Vec::new();
        let mut put = |pcs: &mut Vec<(u32, u32)>, used: &mut std::collections::HashSet<u32>, s: u32, c: u32| {
            if used.insert(s) {
                pcs.push((s, c));
            }
        };
        for _ in 0..rng.gen_range(1..=4) {
            put(&mut pcs, &mut used, 48 + rng.gen_range(1..=8u32), 1); // white pawns on the 7th
        }
        for _ in 0..rng.gen_range(1..=4) {
            put(&mut pcs, &mut used, 8 + rng.gen_range(1..=8u32), 7); // black pawns on the 2nd
        }
        for _ in 0..rng.gen_range(1..=4) {
            let kind = [2u32, 3, 4, 5][rng.gen_range(0..4)];
            put(&mut pcs, &mut used, 56 + rng.gen_range(1..=8u32), kind + 6); // black officers on the 8th
        }
        for _ in 0..rng.gen_range(1..=4) {
            let kind = [2u32, 3, 4, 5][rng.gen_range(0..4)];
            put(&mut pcs, &mut used, rng.gen_range(1..=8u32), kind); // white officers on the 1st
        }
        for _ in 0..rng.gen_range(0..=3) {
            let kind = [2u32, 3, 4, 5, 5][rng.gen_range(0..5)];
            let col = rng.gen_range(0..2u32);
            put(&mut pcs, &mut used, rng.gen_range(17..=48u32), kind + 6 * col);
        }
        let mut ks = 0;
        for kc in [6u32, 12] {
            for _ in 0..20 {
                let sq = rng.gen_range(17..=48u32);
                if !used.contains(&sq) {
                    put(&mut pcs, &mut used, sq, kc);
                    ks += 1;
                    break;
                }
            }
        }
        if ks != 2 {
            continue;
        }
        let stm = rng.gen_range(0..2u32);
        let b = crate::misc::board_from(t, &pcs, stm, 0, 0);
        let other = if stm == 0 { PieceColor::Black } else { PieceColor::White };
        if is_check(&b, other) || generate_moves(&b, MoveGenerationMode::AllMoves, &t.hasher).is_empty() {
            continue;
        }
        out.push(json!({"tag": "fam", "cmd": format!("position fen {}", to_fen(&b, 0, 1))}));
        count += 1;
    }
    // under-promotion matters: queening stalemates the opponent, or only the knight promotion gives check; emitted with the
    // promoting side to move and one ply earlier (the defender's king still has to step to its square), so that the
    // promotion choice is made inside the tree as well as at the root
    count = 0;
    tries = 0;
    while count < n_fam / 3 && tries < 2000000 {
        tries += 1;
        let c = rng.gen_range(0..2u32);
        let (pr, lr) = if c == 0 { (7u32, 8u32) } else { (2u32, 1u32) };
        let f = rng.gen_range(1..=8u32);
        let pw = 8 * (pr - 1) + f;
        let front = 8 * (lr - 1) + f;
        let ok = rng.gen_range(1..=64u32);
        let dk = rng.gen_range(1..=64u32);
        if ok == dk || ok == pw || dk == pw || ok == front || dk == front {
            continue;
        }
        let mut pcs = vec![(pw, 1 + 6 * c), (ok, 6 + 6 * c), (dk, 6 + 6 * (1 - c))];
        if rng.gen_bool(0.5) {
            let sq = rng.gen_range(1..=64u32);
            if [pw, ok, dk, front].contains(&sq) {
                continue;
            }
            let kind = [1u32, 2, 3][rng.gen_range(0..3)];
            if kind == 1 && (sq <= 8 || sq >= 57) {
                continue;
            }
            pcs.push((sq, kind + 6 * (1 - c)));
        }
        let b = crate::misc::board_from(t, &pcs, c, 0, 0);
        let other = if c == 0 { PieceColor::Black } else { PieceColor::White };
        if is_check(&b, other) {
            continue;
        }
        let ms = generate_moves(&b, MoveGenerationMode::AllMoves, &t.hasher);
        let promo = |k: PieceKind| ms.iter().find(|m| m.last_move.map(|(a, z)| sq_of(a) == pw && sq_of(z) == front).unwrap_or(false)
            && m.pawn_promotion.map(|p| p.kind == k).unwrap_or(false));
        let (q, n) = (promo(PieceKind::Queen), promo(PieceKind::Knight));
        let cond1 = q.map(|q| !is_check(q, q.to_move) && generate_moves(q, MoveGenerationMode::AllMoves, &t.hasher).is_empty()).unwrap_or(false);
        let cond2 = match (q, n) {
            (Some(q), Some(n)) => is_check(n, n.to_move) && !is_check(q, q.to_move),
            _ => false,
        };
        // alternate the two motives (stalemate after queening is the rarer one)
        if !(if count % 2 == 0 { cond1 } else { cond1 || cond2 }) {
            continue;
        }
        out.push(json!({"tag": "fam", "cmd": format!("position fen {}", to_fen(&b, 0, 1))}));
        count += 1;
        // one ply earlier: the defender's king steps onto dk
        for d in [1i32, -1, 8, -8, 7, -7, 9, -9] {
            let from = dk as i32 + d;
            if !(1..=64).contains(&from) || ((from - 1) % 8 - (dk as i32 - 1) % 8).abs() > 1 {
                continue;
            }
            let from = from as u32;
            if pcs.iter().any(|(s, _)| *s == from) {
                continue;
            }
            let mut p2: Vec<(u32, u32)> = pcs.iter().filter(|(s, _)| *s != dk).cloned().collect();
            p2.push((from, 6 + 6 * (1 - c)));
            let b2 = crate::misc::board_from(t, &p2, 1 - c, 0, 0);
            let mover = if c == 0 { PieceColor::White } else { PieceColor::Black };
            if is_check(&b2, mover) {
                continue;
            }
            let m2 = generate_moves(&b2, MoveGenerationMode::AllMoves, &t.hasher);
            if m2.iter().any(|m| m.board == b.board) {
                out.push(json!({"tag": "fam", "cmd": format!("position fen {}", to_fen(&b2, 0, 1))}));
                break;
            }
        }
    }
    // perpetual checks against the side that is ahead (a quarter of the repetition scenarios, at least two)
    {
        let pkits: [(&[u32], &[u32]); 6] = [(&[6, 5], &[6, 4, 4, 1, 1]), (&[6, 5], &[6, 4, 4, 3, 1, 1, 1]), (&[6, 5], &[6, 5, 4, 1, 1]), (&[6, 4], &[6, 4, 3, 2, 1, 1]),
                                             (&[6, 5, 1], &[6, 5, 4, 2, 1, 1]), (&[6, 5], &[6, 4, 4, 4, 1, 1, 1])];
        let want = if n_rep == 0 { 0 } else { std::cmp::max(4, n_rep / 4) };
        let mut found = 0;
        let mut tries = 0;
        while found < want && tries < 3000000 {
            tries += 1;
            let (x, y) = pkits[rng.gen_range(0..pkits.len())];
            // random_endgame picks colours and the side to move at random; X must be the one to move
            if let Some(b0) = random_endgame(t, &mut rng, x, y) {
                // every other one with forced replies all the way round
                let forced = found % 2 == 1;
                if let Some(cyc) = perpetual_cycle(t, &b0, forced) {
                    out.push(json!({"tag": "rep", "cmd": format!("position fen {} moves {}", to_fen(&b0, 0, 1), cyc.join(" "))}));
                    if !forced {
                        // two full cycles: the CHECKER is offered the repetition - its checking move leads into a position that has
                        // occurred twice, and the checked side could leave the cycle with its reply if the search went on (a draw
                        // test that is skipped for positions in check values the move by that reply)
                        let mut two: Vec<String> = cyc[..4].to_vec();
                        two.extend_from_slice(&cyc[..4]);
                        out.push(json!({"tag": "rep", "cmd": format!("position fen {} moves {}", to_fen(&b0, 0, 1), two.join(" "))}));
                    }
                    if forced {
                        // the same geometry WITHOUT a history, the checking side to move: the perpetual comes back to the root position at
                        // ply 4 (through the check extension inside iteration 3) - a second occurrence, which is not a draw; and with one
                        // cycle of history, where it is the third
                        out.push(json!({"tag": "small", "cmd": format!("position fen {}", to_fen(&b0, 0, 1))}));
                        out.push(json!({"tag": "small", "cmd": format!("position fen {} moves {}", to_fen(&b0, 0, 1), cyc[..4].join(" "))}));
                    }
                    found += 1;
                }
            }
        }
    }
    // third repetition on offer
    count = 0;
    tries = 0;
    while count < n_rep && tries < 20000 {
        tries += 1;
        let b0 = if rng.gen_bool(0.6) {
            let (s, w) = kits[rng.gen_range(0..kits.len())];
            match random_endgame(t, &mut rng, s, w) {
                Some(b) => b,
                None => continue,
            }
        } else {
            // a position a few plies into a game from a seed
            let mut b = match BoardState::from_fen(&seeds[rng.gen_range(0..seeds.len())]) {
                Ok(b) => b,
                Err(_) => continue,
            };
            for _ in 0..rng.gen_range(0..10) {
                let ms = generate_moves(&b, MoveGenerationMode::AllMoves, &t.hasher);
                if ms.is_empty() {
                    break;
                }
                b = ms[rng.gen_range(0..ms.len())].clone();
            }
            b
        };
        // the repetition clause bites when the side that can repeat (the side NOT to move in b0) is the weaker one
        let mut bal = 0i32;
        for row in BOARD_START..BOARD_END {
            for col in BOARD_START..BOARD_END {
                if let Square::Full(p) = b0.board[row][col] {
                    let v = [0, 1, 3, 3, 5, 9, 0][((piece_code(Square::Full(p)) - 1) % 6 + 1) as usize];
                    bal += if p.color == PieceColor::White { v } else { -v };
                }
            }
        }
        let repeater_white = b0.to_move == PieceColor::Black;
        let repeater_ahead = if repeater_white { bal > 0 } else { bal < 0 };
        if repeater_ahead {
            // the side that is offered the repetition is ahead: the interesting case is the one in which the move into the
            // twice-seen position is its favourite
            if let Some(cyc) = greedy_cycle(t, &b0, &mut rng) {
                out.push(json!({"tag": "rep", "cmd": format!("position fen {} moves {}", to_fen(&b0, 0, 1), cyc.join(" "))}));
                count += 1;
                continue;
            }
            if rng.gen_bool(0.7) {
                continue;
            }
        }
        if let Some(cyc) = repetition_cycle(t, &b0, &mut rng) {
            // optionally an irreversible prefix is already part of b0's history: not needed, the record is rebuilt from the command
            // 3 plies: a second occurrence only (count 1, a control); 7: third occurrence on offer; 11: fourth
            let keep = [3usize, 7, 7, 11, 11][rng.gen_range(0..5)];
            out.push(json!({"tag": "rep", "cmd": format!("position fen {} moves {}", to_fen(&b0, 0, 1), cyc[..keep].join(" "))}));
            count += 1;
        }
    }
    // finished games: checkmates and stalemates (random endgames without a legal move, plus games played out)
    count = 0;
    tries = 0;
    for fixed in ["position startpos moves f2f3 e7e5 g2g4 d8h4", "position fen 7k/5Q2/6K1/8/8/8/8/8 b - - 0 1", "position fen k7/2Q5/1K6/8/8/8/8/8 b - - 0 1",
                  "position fen 6k1/5ppp/8/8/8/8/8/R3K3 w Q - 0 1 moves a1a8", "position fen 8/8/8/8/8/5k2/5p2/5K2 w - - 0 1"] {
        if count < n_term {
            out.push(json!({"tag": "terminal", "cmd": fixed}));
            count += 1;
        }
    }
    while count < n_term && tries < 2000000 {
        tries += 1;
        let (s, w) = kits[rng.gen_range(0..kits.len())];
        if let Some(b) = random_endgame(t, &mut rng, s, w) {
            if generate_moves(&b, MoveGenerationMode::AllMoves, &t.hasher).is_empty() {
                out.push(json!({"tag": "terminal", "cmd": format!("position fen {}", to_fen(&b, 0, 1))}));
                count += 1;
            }
        }
    }
    // exactly one legal move (a forced reply)
    count = 0;
    tries = 0;
    while count < n_term / 2 && tries < 2000000 {
        tries += 1;
        let (s, w) = kits[rng.gen_range(0..kits.len())];
        if let Some(b) = random_endgame(t, &mut rng, s, w) {
            if generate_moves(&b, MoveGenerationMode::AllMoves, &t.hasher).len() == 1 {
                out.push(json!({"tag": "forced", "cmd": format!("position fen {}", to_fen(&b, 0, 1))}));
                count += 1;
            }
        }
    }
    // game positions with their real history
    count = 0;
    while count < n_game {
        let fen = &seeds[rng.gen_range(0..seeds.len())];
        let mut b = match BoardState::from_fen(fen) {
            Ok(b) => b,
            Err(_) => continue,
        };
        let mut texts = vec![];
        for _ in 0..rng.gen_range(0..30) {
            let ms = generate_moves(&b, MoveGenerationMode::AllMoves, &t.hasher);
            if ms.is_empty() {
                break;
            }
            b = ms[rng.gen_range(0..ms.len())].clone();
            texts.push(printed_move(&b));
        }
        if generate_moves(&b, MoveGenerationMode::AllMoves, &t.hasher).is_empty() {
            continue;
        }
        let cmd = if texts.is_empty() { format!("position fen {}", fen) } else { format!("position fen {} moves {}", fen, texts.join(" ")) };
        out.push(json!({"tag": "game", "cmd": cmd}));
        count += 1;
    }
    Value::Array(out)
}

// queen-heavy legal positions (capture trees that explode): inputs for the time-bound checks
pub fn heavy_positions(t: &Tables, seed: u64, n: usize, queens: usize) -> Value {
    let mut rng = StdRng::seed_from_u64(seed);
    let mut out = Vec::new();
    let mut tries = 0;
    while out.len() < n && tries < 200000 {
        tries += 1;
        let mut sqs: Vec<u32> = (1..=64).collect();
        for i in (1..64).rev() {
            let j = rng.gen_range(0..=i);
            sqs.swap(i, j);
        }
        let mut pcs = vec![(sqs[0], 6u32), (sqs[1], 12u32)];
        let nq = rng.gen_range(queens.saturating_sub(2).max(1)..=queens);
        for i in 0..nq {
            pcs.push((sqs[2 + i], 5));
            pcs.push((sqs[2 + nq + i], 11));
        }
        let stm = rng.gen_range(0..2u32);
        let b = crate::misc::board_from(t, &pcs, stm, 0, 0);
        let (me, other) = if stm == 0 { (PieceColor::White, PieceColor::Black) } else { (PieceColor::Black, PieceColor::White) };
        if is_check(&b, other) || is_check(&b, me) {
            continue;
        }
        if generate_moves(&b, MoveGenerationMode::AllMoves, &t.hasher).is_empty() {
            continue;
        }
        out.push(json!(to_fen(&b, 0, 1)));
    }
    Value::Array(out)
}

// ---------------------------------------------------------------------------------------------
// C11: mate announcements beyond the distance TLC re-derives by brute force.  The harness only FINDS a certificate
// (with the engine's own generator, which is not trusted): a proof DAG for "the mover mates within n moves" / "is mated
// within n moves", or a refutation DAG for the same claim.  TraceSearch.tla CHECKS the certificate node by node against
// Chess.tla (every "all replies" node must list exactly Legal(pos), every "one move" node a member of it, leaves are
// checkmates / stalemates / exhausted budgets) - the verdict on the announcement is TLC's.
//   node types  A  (mover mates within n)            one kid   -> D n-1
//               D  (checkmated now, or n >= 1 and every reply runs into A n)   all kids -> A n
//               NA (mover does NOT mate within n)     all kids  -> ND n-1      (n = 0: leaf)
//               ND (not checkmated, and n = 0 or some reply reaches NA n)      one kid -> NA n (stalemate / n = 0: leaf)
// ---------------------------------------------------------------------------------------------
struct Solver<'a> {
    t: &'a Tables,
    memo: HashMap<(u64, u8, bool), bool>, // (key, n, attacker node?) -> attacker wins
    work: u64,
    cap: u64,
}

impl<'a> Solver<'a> {
    fn moves(&mut self, b: &BoardState) -> Vec<BoardState> {
        self.work += 1;
        generate_moves(b, MoveGenerationMode::AllMoves, &self.t.hasher)
    }
    // the side to move mates within n of its own moves
    fn a(&mut self, b: &BoardState, n: u8) -> bool {
        if n == 0 || self.work > self.cap {
            return false;
        }
        let key = (self.t.scratch_key(b), n, true);
        if let Some(v) = self.memo.get(&key) {
            return *v;
        }
        let mut kids = self.moves(b);
        // checking moves first
        kids.sort_by_key(|m| !is_check(m, m.to_move));
        let mut r = false;
        for m in &kids {
            if self.d(m, n - 1) {
                r = true;
                break;
            }
        }
        if self.work <= self.cap {
            self.memo.insert(key, r);
        }
        r
    }
    // the side to move is checkmated now, or (n >= 1) has a move and every move runs into a mate within n
    fn d(&mut self, b: &BoardState, n: u8) -> bool {
        if self.work > self.cap {
            return false;
        }
        let key = (self.t.scratch_key(b), n, false);
        if let Some(v) = self.memo.get(&key) {
            return *v;
        }
        let kids = self.moves(b);
        let r = if kids.is_empty() {
            is_check(b, b.to_move)
        } else if n == 0 {
            false
        } else {
            let mut all = true;
            for m in &kids {
                if !self.a(m, n) {
                    all = false;
                    break;
                }
            }
            all
        };
        if self.work <= self.cap {
            self.memo.insert(key, r);
        }
        r
    }
}

struct CertOut<'a> {
    t: &'a Tables,
    nodes: Vec<Value>,
    ids: HashMap<(u64, u8, u8), u64>, // (key, n, type) -> 1-based index
    over: bool,
    cap: usize,
}

impl<'a> CertOut<'a> {
    // returns the 1-based index of the node (key, n, ty); ty: 0 A, 1 D, 2 NA, 3 ND
    fn emit(&mut self, s: &mut Solver, b: &BoardState, n: u8, ty: u8) -> u64 {
        let key = (self.t.scratch_key(b), n, ty);
        if let Some(i) = self.ids.get(&key) {
            return *i;
        }
        if self.nodes.len() >= self.cap {
            self.over = true;
            return 0;
        }
        let idx = self.nodes.len() as u64 + 1;
        self.ids.insert(key, idx);
        self.nodes.push(Value::Null);
        let kids = generate_moves(b, MoveGenerationMode::AllMoves, &self.t.hasher);
        let mut k: Vec<u64> = Vec::new();
        match ty {
            0 => {
                // one move after which D(n-1) holds
                if let Some(m) = kids.iter().find(|m| s.d(m, n - 1)) {
                    k.push(self.emit(s, m, n - 1, 1));
                }
            }
            1 => {
                if !kids.is_empty() {
                    for m in &kids {
                        k.push(self.emit(s, m, n, 0));
                    }
                }
            }
            2 => {
                if n >= 1 {
                    for m in &kids {
                        k.push(self.emit(s, m, n - 1, 3));
                    }
                }
            }
            _ => {
                if !kids.is_empty() && n >= 1 {
                    if let Some(m) = kids.iter().find(|m| !s.a(m, n)) {
                        k.push(self.emit(s, m, n, 2));
                    }
                }
            }
        }
        let st = self.t.state(b);
        let tyname = ["A", "D", "NA", "ND"][ty as usize];
        self.nodes[idx as usize - 1] = json!({"r": st["r"], "stm": st["stm"], "cr": st["cr"], "ep": st["ep"], "t": tyname, "n": n, "k": k});
        idx
    }
}

// shortest mate for the mover (1..=maxn) or 0, by the solver (used to pick interesting positions only)
fn mate_distance(t: &Tables, b: &BoardState, maxn: u8, cap: u64) -> u8 {
    let mut s = Solver { t, memo: HashMap::new(), work: 0, cap };
    for n in 1..=maxn {
        if s.a(b, n) {
            return n;
        }
        if s.work > cap {
            return 0;
        }
    }
    0
}

pub fn mate_certs(t: &Tables, cmds0: &[String], dir: &str, nshards: usize, seed: u64, budget: u64, lo: i64, hi: i64, randoms: usize, node_cap: usize, claim_delta: i64) -> Value {
    // scenarios given + random small endgames in which the mover has a forced mate in lo..hi moves (filtered with the solver)
    let mut cmds: Vec<String> = cmds0.to_vec();
    let kits: [(&[u32], &[u32]); 7] = [(&[6, 5], &[6]), (&[6, 4], &[6]), (&[6, 4, 4], &[6]), (&[6, 5], &[6, 4]), (&[6, 5, 5], &[6]),
                                        (&[6, 4, 1], &[6]), (&[6, 5], &[6, 2])];
    let idx: Vec<String> = (0..randoms).map(|i| i.to_string()).collect();
    let found: Vec<Option<String>> = par_map(&idx, |i, _| {
        let mut rng = StdRng::seed_from_u64(seed.wrapping_mul(1_000_003).wrapping_add(i as u64));
        for _ in 0..400 {
            let (s, w) = kits[rng.gen_range(0..kits.len())];
            if let Some(b) = random_endgame(t, &mut rng, s, w) {
                if generate_moves(&b, MoveGenerationMode::AllMoves, &t.hasher).is_empty() {
                    continue;
                }
                let dist = mate_distance(t, &b, hi as u8, 300_000) as i64;
                if dist >= lo && dist <= hi {
                    return Some(format!("position fen {}", to_fen(&b, 0, 1)));
                }
                // the defender's view of the same kind of position: the bare side to move, mated within lo-1..hi-1
                if dist == 0 && rng.gen_bool(0.3) {
                    let mut s2 = Solver { t, memo: HashMap::new(), work: 0, cap: 300_000 };
                    for n in (lo - 1).max(1)..hi {
                        if s2.d(&b, n as u8) {
                            return Some(format!("position fen {}", to_fen(&b, 0, 1)));
                        }
                    }
                }
            }
        }
        None
    });
    cmds.extend(found.into_iter().flatten());
    let results: Vec<Vec<Value>> = par_map(&cmds, |_i, cmd| {
        let sc = match scenario(t, cmd) {
            Some(sc) => sc,
            None => return Vec::new(),
        };
        if table_entries(&sc.table).len() > 1 {
            return Vec::new(); // claims are judged on the rules alone only without a repetition history
        }
        let full = run_search(t, &sc.board, &sc.table, budget);
        if full.panic {
            return Vec::new();
        }
        // the strongest positive claim on any line, the strongest negative claim among the last lines of completed depths
        let maxd = full.infos.iter().filter_map(|i| i["depth"].as_i64()).max().unwrap_or(0);
        let mut pos: Option<(i64, String)> = None;
        let mut neg: Option<(i64, String)> = None;
        for (j, i) in full.infos.iter().enumerate() {
            if i["ok"].as_bool() != Some(true) || i["kind"].as_str() != Some("mate") {
                continue;
            }
            let v = i["val"].as_i64().unwrap_or(0);
            let raw = i["raw"].as_str().unwrap_or("").to_string();
            if v > 0 {
                if pos.as_ref().map_or(true, |p| v < p.0) {
                    pos = Some((v, raw));
                }
            } else if v < 0 {
                let d = i["depth"].as_i64().unwrap_or(0);
                let last_of_depth = full.infos[j + 1..].iter().all(|x| x["depth"].as_i64().unwrap_or(0) != d);
                if last_of_depth && d < maxd && neg.as_ref().map_or(true, |p| -v < p.0) {
                    neg = Some((-v, raw));
                }
            }
        }
        let mut evs = Vec::new();
        for (claim, sign) in [(pos, 1i64), (neg, -1i64)] {
            let (n, raw) = match claim {
                Some(c) => c,
                None => continue,
            };
            if n < lo || n > hi {
                continue;
            }
            // self-test of the judge only: pretend the engine had announced a shorter / longer mate
            let n = (n + claim_delta).max(1);
            let mut s = Solver { t, memo: HashMap::new(), work: 0, cap: 2_000_000 };
            let holds = if sign > 0 { s.a(&sc.board, n as u8) } else { s.d(&sc.board, n as u8) };
            let base = json!({"ev": "mcert", "cmd": cmd, "root": t.state(&sc.board), "claim": sign * n, "raw": raw});
            let mut ev = base.as_object().unwrap().clone();
            if s.work > s.cap {
                ev.insert("cert".into(), json!("none"));
                ev.insert("nodes".into(), json!([]));
                evs.push(Value::Object(ev));
                continue;
            }
            s.cap = u64::MAX;
            let mut c = CertOut { t, nodes: Vec::new(), ids: HashMap::new(), over: false, cap: node_cap };
            let ty = match (sign > 0, holds) {
                (true, true) => 0,
                (true, false) => 2,
                (false, true) => 1,
                (false, false) => 3,
            };
            c.emit(&mut s, &sc.board, n as u8, ty);
            if c.over {
                ev.insert("cert".into(), json!("none"));
                ev.insert("nodes".into(), json!([]));
            } else {
                ev.insert("cert".into(), json!(if holds { "proof" } else { "refutation" }));
                ev.insert("nodes".into(), Value::Array(c.nodes));
            }
            evs.push(Value::Object(ev));
        }
        evs
    });
    let mut out = Shards::new(dir, "search", nshards);
    let mut load = vec![0usize; nshards];
    let (mut n_ev, mut n_nodes) = (0u64, 0u64);
    for evs in &results {
        for e in evs {
            let shard = (0..nshards).min_by_key(|i| load[*i]).unwrap();
            load[shard] += e["nodes"].as_array().map_or(0, |a| a.len()) + 1;
            n_nodes += e["nodes"].as_array().map_or(0, |a| a.len()) as u64;
            n_ev += 1;
            out.emit(shard, e);
        }
    }
    out.finish();
    json!({"scenarios": cmds.len(), "claims": n_ev, "certificate_nodes": n_nodes})
}
