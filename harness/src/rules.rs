// Direction code -> spec for the rules machine: drives the engine's generator / text applier /
// position command along its own histories and logs ndjson events for TraceRules.tla.
use crate::board::*;
use crate::draw_table::DrawTable;
use crate::enc::*;
use crate::move_generation::*;
use crate::uci;
use rand::rngs::StdRng;
use rand::{Rng, SeedableRng};
use serde_json::{json, Value};
use std::collections::HashSet;
use std::fs::File;
use std::io::{BufWriter, Write};
use std::panic::{catch_unwind, AssertUnwindSafe};

pub struct Shards {
    files: Vec<BufWriter<File>>,
    pub lines: Vec<u64>,
}

impl Shards {
    pub fn new(dir: &str, prefix: &str, n: usize) -> Shards {
        std::fs::create_dir_all(dir).unwrap();
        let files = (0..n)
            .map(|i| BufWriter::new(File::create(format!("{}/{}{:02}.ndjson", dir, prefix, i)).unwrap()))
            .collect();
        Shards { files, lines: vec![0; n] }
    }
    // returns the 1-based line number of the event inside its shard
    pub fn emit(&mut self, shard: usize, v: &Value) -> u64 {
        let s = shard % self.files.len();
        writeln!(self.files[s], "{}", v).unwrap();
        self.lines[s] += 1;
        self.lines[s]
    }
    pub fn finish(&mut self) {
        for f in &mut self.files {
            f.flush().unwrap();
        }
    }
}

pub fn is_special(parent: &BoardState, succ: &BoardState) -> bool {
    let (f, t) = match succ.last_move {
        Some(x) => x,
        None => return false,
    };
    let mover = parent.board[f.0][f.1];
    let kind = match mover {
        Square::Full(p) => p.kind,
        _ => return false,
    };
    if succ.pawn_promotion.is_some() {
        return true;
    }
    if kind == PieceKind::King && (f.1 as i32 - t.1 as i32).abs() == 2 {
        return true;
    }
    if kind == PieceKind::Pawn {
        if (f.0 as i32 - t.0 as i32).abs() == 2 {
            return true;
        }
        if f.1 != t.1 && parent.board[t.0][t.1] == Square::Empty {
            return true;
        }
    }
    // rook moves / captures on corners
    let corner = |p: Point| (p.0 == 2 || p.0 == 9) && (p.1 == 2 || p.1 == 9);
    corner(f) || corner(t)
}

pub struct RulesCfg {
    pub playouts: usize,
    pub plies: usize,
    pub caps_prob: f64,
    pub caps_budget: usize,
    pub with_text: bool,
    pub with_pos: bool,
    pub repeat_bias: f64,
    pub emit_gen: bool,
    pub bfs_depth: usize,
    pub bfs_budget: usize,
    pub family: usize,
}

pub fn gen_event(
    t: &Tables,
    board: &BoardState,
    mode: MoveGenerationMode,
    par: u64,
    via: usize,
    with_text: bool,
    src: &str,
    path: &Value,
) -> (Value, Vec<BoardState>) {
    // the check flags are asked BEFORE the successors are generated, as the search does (horizon test, null-move guard):
    // whatever the board object remembers about them is then in place when its successors are cloned from it
    let chk = [is_check(board, PieceColor::White), is_check(board, PieceColor::Black)];
    let moves = generate_moves(board, mode, &t.hasher);
    let mut ms = Vec::new();
    for s in &moves {
        let mut entry = json!({ "s": t.state(s) });
        if with_text {
            let text = printed_move(s);
            entry["txt"] = json!(text);
            let mut b2 = board.clone();
            let r = catch_unwind(AssertUnwindSafe(|| {
                uci::verif_make_move(&mut b2, &text, &t.hasher);
            }));
            match r {
                Ok(()) => entry["t"] = t.state(&b2),
                Err(_) => entry["tpanic"] = json!(true),
            }
        }
        ms.push(entry);
    }
    let ev = json!({
        "ev": "gen",
        "mode": if mode == MoveGenerationMode::AllMoves { "all" } else { "caps" },
        "src": src,
        "pos": t.state(board),
        "chk": chk,
        "moves": ms,
        "par": par,
        "via": via,
        "path": path,
    });
    (ev, moves)
}

// depth-first walk over capture-only generations, as quiescence follows them
fn caps_chain(
    t: &Tables,
    out: &mut Shards,
    shard: usize,
    board: &BoardState,
    par: u64,
    via: usize,
    depth: usize,
    budget: &mut usize,
    rng: &mut StdRng,
    fen: &str,
    texts: &mut Vec<String>,
    capsfrom: usize,
) {
    if *budget == 0 {
        return;
    }
    *budget -= 1;
    let path = json!({"fen": fen, "texts": texts, "capsfrom": capsfrom});
    let (ev, moves) = gen_event(t, board, MoveGenerationMode::CapturesOnly, par, via, false, "capschain", &path);
    let line = out.emit(shard, &ev);
    if depth == 0 {
        return;
    }
    let mut idx: Vec<usize> = (0..moves.len()).collect();
    // random order, at most three branches per node
    for i in (1..idx.len()).rev() {
        let j = rng.gen_range(0..=i);
        idx.swap(i, j);
    }
    for &i in idx.iter().take(3) {
        texts.push(printed_move(&moves[i]));
        caps_chain(t, out, shard, &moves[i], line, i + 1, depth - 1, budget, rng, fen, texts, capsfrom);
        texts.pop();
    }
}

// one random member of family (fi mod 4): 0 castling, 1 en passant, 2 promotion, 3 a blocked line from a slider to the enemy king
pub fn family_member(t: &Tables, rng: &mut StdRng, fi: usize) -> Option<BoardState> {
    for _try in 0..200 {
        let mut pcs: Vec<(u32, u32)> = Vec::new();
        let mut cr = 0u32;
        let mut used = std::collections::HashSet::new();
        let mut put = |pcs: &mut Vec<(u32, u32)>, used: &mut std::collections::HashSet<u32>, s: u32, c: u32| -> bool {
            if used.contains(&s) {
                return false;
            }
            used.insert(s);
            pcs.push((s, c));
            true
        };
        let stm = rng.gen_range(0..2u32);
        match fi % 4 {
            3 => {
                // a line from a slider of the side to move to the enemy king with exactly ONE man on it (own: it can move
                // away - discovered and double checks; enemy: it can be captured by a man that then stands on the line in
                // front of the slider), a few men of both sides around: the replies to such checks are where "only the
                // king can move" / "only the checker can be captured" shortcuts go wrong
                let c = stm;
                let ks = rng.gen_range(1..=64u32);
                let dirs: [(i32, i32); 8] = [(1, 0), (-1, 0), (0, 1), (0, -1), (1, 1), (1, -1), (-1, 1), (-1, -1)];
                // half of the members are the pawn sub-case below (diagonal towards the attacker's side, blocker next to the king)
                let pawn_case = rng.gen_bool(0.5);
                let (df, dr) = if pawn_case { (if rng.gen_bool(0.5) { 1 } else { -1 }, if c == 0 { -1 } else { 1 }) } else { dirs[rng.gen_range(0..8)] };
                let at = |k: i32| -> Option<u32> {
                    let f = ((ks - 1) % 8) as i32 + df * k;
                    let r = ((ks - 1) / 8) as i32 + dr * k;
                    if (0..8).contains(&f) && (0..8).contains(&r) { Some((8 * r + f + 1) as u32) } else { None }
                };
                let bd = if pawn_case { 1 } else { rng.gen_range(1..=3) };
                let sd = bd + rng.gen_range(1..=3);
                let (bsq, ssq) = match (at(bd), at(sd)) {
                    (Some(b), Some(s2)) => (b, s2),
                    _ => continue,
                };
                put(&mut pcs, &mut used, ks, 6 + 6 * (1 - c));
                let slider = if df == 0 || dr == 0 { [4u32, 5][rng.gen_range(0..2)] } else { [3u32, 5][rng.gen_range(0..2)] };
                put(&mut pcs, &mut used, ssq, slider + 6 * c);
                let blocker_own = !pawn_case && rng.gen_bool(0.5);
                let bkind = [1u32, 1, 2, 3, 4][rng.gen_range(0..5)];
                put(&mut pcs, &mut used, bsq, bkind + 6 * (if blocker_own { c } else { 1 - c }));
                // the squares between stay empty
                for k in 1..sd {
                    if k != bd {
                        if let Some(q) = at(k) {
                            used.insert(q);
                        }
                    }
                }
                // a third of the members: the blocker is an enemy man right next to the king on a diagonal and an own pawn
                // stands ready to capture it - the pawn then gives check from the slider's line, with the slider behind it
                if !blocker_own && bd == 1 && df != 0 && dr != 0 && (dr == 1) == (c == 1) {
                    let (bf, br) = (((bsq - 1) % 8) as i32, ((bsq - 1) / 8) as i32);
                    let pr = br + if c == 0 { -1 } else { 1 };
                    let pf = bf - df; // the other diagonal neighbour (bf + df) lies on the slider's line
                    if (0..8).contains(&pf) && (1..7).contains(&pr) {
                        put(&mut pcs, &mut used, (8 * pr + pf + 1) as u32, 1 + 6 * c);
                    }
                }
                put(&mut pcs, &mut used, rng.gen_range(1..=64), 6 + 6 * c);
                for _ in 0..rng.gen_range(2..=4) {
                    // own men near the blocker (they may capture it), enemy men anywhere (they may capture or interpose)
                    let near = at(bd).map(|q| {
                        let f = ((q - 1) % 8) as i32 + rng.gen_range(-2..=2);
                        let r = ((q - 1) / 8) as i32 + rng.gen_range(-2..=2);
                        if (0..8).contains(&f) && (0..8).contains(&r) { (8 * r + f + 1) as u32 } else { q }
                    }).unwrap_or(1);
                    put(&mut pcs, &mut used, near, [1u32, 1, 2, 3][rng.gen_range(0..4)] + 6 * c);
                }
                for _ in 0..rng.gen_range(2..=4) {
                    put(&mut pcs, &mut used, rng.gen_range(1..=64), [1u32, 2, 2, 3, 4, 5][rng.gen_range(0..6)] + 6 * (1 - c));
                }
            }
            0 => {
                // kings at home, a random non-empty subset of corner rooks with their rights, 1-3 random officers;
                // in half of the members only the side to move keeps rights and the other king stands anywhere
                // (castling that gives check, castling next to the enemy king)
                let roam = rng.gen_bool(0.5);
                if roam {
                    let (ks, opp) = if stm == 0 { (5u32, 12u32) } else { (61u32, 6u32) };
                    put(&mut pcs, &mut used, ks, if stm == 0 { 6 } else { 12 });
                    let mut osq = rng.gen_range(1..=64u32);
                    while osq == ks || [1u32, 8, 57, 64].contains(&osq) {
                        osq = rng.gen_range(1..=64u32);
                    }
                    put(&mut pcs, &mut used, osq, opp);
                } else {
                    put(&mut pcs, &mut used, 5, 6);
                    put(&mut pcs, &mut used, 61, 12);
                }
                for (sq, pc, bit) in [(8u32, 4u32, 1u32), (1, 4, 2), (64, 10, 4), (57, 10, 8)] {
                    let white_right = bit <= 2;
                    if roam && white_right != (stm == 0) {
                        continue;
                    }
                    if rng.gen_bool(0.6) {
                        put(&mut pcs, &mut used, sq, pc);
                        cr |= bit;
                    }
                }
                if cr == 0 {
                    continue;
                }
                // often a second rook of a side that may castle, away from home on the a- or h-file (a rook that is not
                // THE rook moves, is captured, captures)
                if rng.gen_bool(0.4) {
                    let white = if roam { stm == 0 } else { rng.gen_bool(0.5) };
                    let sq = 8 * rng.gen_range(2..=5u32) + if rng.gen_bool(0.5) { 1 } else { 8 };
                    put(&mut pcs, &mut used, sq, if white { 4 } else { 10 });
                }
                for _ in 0..rng.gen_range(1..=3) {
                    let kind = [2u32, 3, 3, 4, 5][rng.gen_range(0..5)];
                    let col = rng.gen_range(0..2u32);
                    // board corners and the rim are where the special cases live: a quarter of the officers go to a corner
                    let sq = if rng.gen_bool(0.25) { [1u32, 8, 57, 64][rng.gen_range(0..4)] } else { rng.gen_range(1..=64) };
                    put(&mut pcs, &mut used, sq, kind + 6 * col);
                }
            }
            1 => {
                // a pawn on its start rank next to the file of an enemy pawn that could capture it en passant
                let c = stm; // the side to move double-steps, the other side captures next
                // sub-case: the double-stepping side still has castling rights and the en-passant capture removes the only man
                // between its king at home and an enemy bishop / queen (b-pawn, line e8-d7-c6-b5-a4 / e1-d2-c3-b4-a5):
                // the reply to the capture is a position in check with castling rights, reached by a move whose
                // origin and target squares are both off the checking line
                if rng.gen_bool(0.15) {
                    let (ks, pst, vic, sl, e1, e2) = if c == 0 { (5u32, 10u32, 26u32, 33u32, 12u32, 19u32) } else { (61u32, 50u32, 34u32, 25u32, 52u32, 43u32) };
                    put(&mut pcs, &mut used, ks, 6 + 6 * c);
                    put(&mut pcs, &mut used, pst, 1 + 6 * c);
                    let capf = if rng.gen_bool(0.5) { vic - 1 } else { vic + 1 };
                    put(&mut pcs, &mut used, capf, 1 + 6 * (1 - c));
                    put(&mut pcs, &mut used, sl, [3u32, 5][rng.gen_range(0..2)] + 6 * (1 - c));
                    used.insert(vic);
                    used.insert(e1);
                    used.insert(e2);
                    used.insert(if c == 0 { 18 } else { 42 }); // the pawn's transit square
                    for (sq, bit) in if c == 0 { [(8u32, 1u32), (1, 2)] } else { [(64u32, 4u32), (57, 8)] } {
                        if rng.gen_bool(0.7) {
                            put(&mut pcs, &mut used, sq, 4 + 6 * c);
                            cr |= bit;
                        }
                    }
                    let mut osq = rng.gen_range(1..=64u32);
                    while used.contains(&osq) {
                        osq = rng.gen_range(1..=64u32);
                    }
                    put(&mut pcs, &mut used, osq, 6 + 6 * (1 - c));
                    for _ in 0..rng.gen_range(0..=2) {
                        put(&mut pcs, &mut used, rng.gen_range(1..=64), [2u32, 3, 4][rng.gen_range(0..3)] + 6 * rng.gen_range(0..2u32));
                    }
                    let b = crate::misc::board_from(t, &pcs, stm, cr, 0);
                    let other = if stm == 0 { PieceColor::Black } else { PieceColor::White };
                    if is_check(&b, other) || is_check(&b, b.to_move) {
                        continue;
                    }
                    return Some(b);
                }
                let f = rng.gen_range(1..=8u32);
                let nf = if f == 1 { 2 } else if f == 8 { 7 } else if rng.gen_bool(0.5) { f - 1 } else { f + 1 };
                let (start_rank, cap_rank) = if c == 0 { (2u32, 4u32) } else { (7u32, 5u32) };
                put(&mut pcs, &mut used, 8 * (start_rank - 1) + f, 1 + 6 * c);
                put(&mut pcs, &mut used, 8 * (cap_rank - 1) + nf, 1 + 6 * (1 - c));
                // the capturer's king often on the capture rank (pins through both pawns) or on a diagonal
                let kr = if rng.gen_bool(0.5) { cap_rank } else { rng.gen_range(1..=8u32) };
                put(&mut pcs, &mut used, 8 * (kr - 1) + rng.gen_range(1..=8u32), 6 + 6 * (1 - c));
                put(&mut pcs, &mut used, rng.gen_range(1..=64), 6 + 6 * c);
                // a slider of the CAPTURING side as well (the capture may discover a check on the other king)
                if rng.gen_bool(0.5) {
                    let kind = [3u32, 4, 5][rng.gen_range(0..3)];
                    put(&mut pcs, &mut used, rng.gen_range(1..=64), kind + 6 * (1 - c));
                }
                // sliders of the double-stepping side (pin candidates) and one extra pawn pair
                for _ in 0..rng.gen_range(1..=2) {
                    let kind = [3u32, 4, 5][rng.gen_range(0..3)];
                    let sq = if rng.gen_bool(0.5) { 8 * (cap_rank - 1) + rng.gen_range(1..=8u32) } else { rng.gen_range(1..=64) };
                    put(&mut pcs, &mut used, sq, kind + 6 * c);
                }
            }
            _ => {
                // pawns one step from promotion with officers to capture on the last rank
                let c = stm;
                let (pr, lr) = if c == 0 { (7u32, 8u32) } else { (2u32, 1u32) };
                for _ in 0..rng.gen_range(1..=2) {
                    put(&mut pcs, &mut used, 8 * (pr - 1) + rng.gen_range(1..=8u32), 1 + 6 * c);
                }
                for _ in 0..rng.gen_range(1..=3) {
                    let kind = [2u32, 3, 4, 5][rng.gen_range(0..4)];
                    put(&mut pcs, &mut used, 8 * (lr - 1) + rng.gen_range(1..=8u32), kind + 6 * (1 - c));
                }
                put(&mut pcs, &mut used, rng.gen_range(1..=64), 6 + 6 * c);
                put(&mut pcs, &mut used, rng.gen_range(1..=64), 6 + 6 * (1 - c));
                // sometimes the enemy keeps a castling right with its rook on the last rank corner
                if rng.gen_bool(0.3) {
                    let (ks, rs, bit) = if c == 0 { (61u32, 64u32, 4u32) } else { (5u32, 8u32, 1u32) };
                    if !used.contains(&ks) && !used.contains(&rs) && !pcs.iter().any(|(_, p)| *p == 6 + 6 * (1 - c)) {
                        put(&mut pcs, &mut used, ks, 6 + 6 * (1 - c));
                        put(&mut pcs, &mut used, rs, 4 + 6 * (1 - c));
                        cr |= bit;
                    }
                }
            }
        }
        // exactly one king each, no pawns on the first / last rank, side not to move not in check
        let wk = pcs.iter().filter(|(_, p)| *p == 6).count();
        let bk = pcs.iter().filter(|(_, p)| *p == 12).count();
        if wk != 1 || bk != 1 {
            continue;
        }
        if pcs.iter().any(|(s, p)| (*p == 1 || *p == 7) && (*s <= 8 || *s >= 57)) {
            continue;
        }
        let b = crate::misc::board_from(t, &pcs, stm, cr, 0);
        let other = if stm == 0 { PieceColor::Black } else { PieceColor::White };
        if is_check(&b, other) {
            continue;
        }
        return Some(b);
    }
    None
}

#[allow(clippy::too_many_arguments)]
fn bfs(t: &Tables, out: &mut Shards, shard: usize, board: &BoardState, par: u64, via: usize, depth: usize, budget: &mut usize,
       fen: &str, texts: &mut Vec<String>, with_text: bool, n: &mut u64, with_tails: bool) {
    if *budget == 0 {
        return;
    }
    *budget -= 1;
    let path = json!({"fen": fen, "texts": texts, "capsfrom": -1});
    let (ev, moves) = gen_event(t, board, MoveGenerationMode::AllMoves, par, via, with_text, "bfs", &path);
    let line = out.emit(shard, &ev);
    *n += 1;
    if depth == 0 {
        // a tail behind every third leaf of the seeded families: one reply, then the first side's moves once more (a
        // right or a target that the first move left wrong shows in what that side may do NEXT, e.g. a castling move
        // that has gone missing)
        // a leaf that offers an en-passant capture always gets its tail, through that capture (what it uncovers - a check on
        // a king that may still castle - shows in the moves generated behind it)
        let eps: Vec<usize> = (0..moves.len()).filter(|&j| match (moves[j].last_move, board.pawn_double_move) {
            (Some((f, to)), Some(target)) => to == target && matches!(board.board[f.0][f.1], Square::Full(p) if p.kind == PieceKind::Pawn),
            _ => false,
        }).collect();
        if with_tails && (*n % 3 == 0 || !eps.is_empty()) && !moves.is_empty() && *budget > 0 {
            let j = if eps.is_empty() { (*n as usize * 7) % moves.len() } else { eps[(*n as usize) % eps.len()] };
            texts.push(printed_move(&moves[j]));
            *budget -= 1;
            let path2 = json!({"fen": fen, "texts": texts, "capsfrom": -1});
            let (ev2, _) = gen_event(t, &moves[j], MoveGenerationMode::AllMoves, line, j + 1, with_text, "bfs", &path2);
            out.emit(shard, &ev2);
            *n += 1;
            texts.pop();
        }
        return;
    }
    for (j, m) in moves.iter().enumerate() {
        texts.push(printed_move(m));
        bfs(t, out, shard, m, line, j + 1, depth - 1, budget, fen, texts, with_text, n, with_tails);
        texts.pop();
    }
}

pub fn position_event(t: &Tables, start_fen: &str, startpos: bool, texts: &[String]) -> Value {
    // prefix states through the text applier, move by move
    let mut b = BoardState::from_fen(start_fen).unwrap();
    let start = t.state(&b);
    let mut states = vec![t.state(&b)];
    let mut keys = vec![format!("{:016x}", t.scratch_key(&b))];
    let mut panicked = false;
    for m in texts {
        let r = catch_unwind(AssertUnwindSafe(|| uci::verif_make_move(&mut b, m, &t.hasher)));
        if r.is_err() {
            panicked = true;
            break;
        }
        states.push(t.state(&b));
        keys.push(format!("{:016x}", t.scratch_key(&b)));
    }
    // the whole command through play_out_position
    let mut cmd: Vec<String> = vec!["position".to_string()];
    if startpos {
        cmd.push("startpos".to_string());
    } else {
        cmd.push("fen".to_string());
        for f in start_fen.split(' ') {
            cmd.push(f.to_string());
        }
    }
    if !texts.is_empty() {
        cmd.push("moves".to_string());
        for m in texts {
            cmd.push(m.clone());
        }
    }
    let refs: Vec<&str> = cmd.iter().map(|s| s.as_str()).collect();
    let mut table = DrawTable::new();
    let r = catch_unwind(AssertUnwindSafe(|| uci::verif_play_out_position(&refs, &t.hasher, &mut table)));
    let (fin, tbl) = match r {
        Ok(fb) => {
            let mut entries: Vec<(u64, u8)> = table.table.iter().map(|(k, v)| (*k, *v)).collect();
            entries.sort_unstable();
            let tv: Vec<Value> = entries.iter().map(|(k, v)| json!([format!("{:016x}", k), v])).collect();
            (t.state(&fb), tv)
        }
        Err(_) => {
            panicked = true;
            (json!({"panicked": true}), vec![])
        }
    };
    json!({
        "ev": "pos", "start": start, "cmd": cmd.join(" "), "texts": texts, "states": states, "keys": keys,
        "final": fin, "table": tbl, "panic": panicked,
    })
}

pub fn run(t: &Tables, seeds: &[String], dir: &str, nshards: usize, seed: u64, cfg: &RulesCfg) -> Value {
    let mut out = Shards::new(dir, "rules", nshards);
    let mut rng = StdRng::seed_from_u64(seed);
    let mut seen: HashSet<String> = HashSet::new();
    let mut n_gen = 0u64;
    let mut n_dup = 0u64;
    let mut n_pos = 0u64;
    // exhaustive part: from every small seed (at most 10 men) all successor chains of length bfs_depth,
    // through the engine's own successor objects
    let mut n_bfs = 0u64;
    if cfg.bfs_depth > 0 {
        let mut budget = cfg.bfs_budget;
        let small: Vec<&String> = seeds.iter().filter(|f| f.split(' ').next().unwrap_or("").chars().filter(|c| c.is_alphabetic()).count() <= 10).collect();
        let per_seed = budget / small.len().max(1);
        for (si, fen) in small.iter().enumerate() {
            let board = match BoardState::from_fen(fen) {
                Ok(b) => b,
                Err(_) => continue,
            };
            budget = per_seed;
            let mut texts: Vec<String> = Vec::new();
            bfs(t, &mut out, si % nshards, &board, 0, 0, cfg.bfs_depth, &mut budget, fen, &mut texts, cfg.with_text, &mut n_bfs, false);
        }
    }
    // seeded geometric families (castling next to captures on the corners, en passant with pins, promotion with
    // captures): random members, each explored with all chains of length 2
    let mut n_fam = 0u64;
    for fi in 0..cfg.family {
        if let Some(board) = family_member(t, &mut rng, fi) {
            let fen = to_fen(&board, 0, 1);
            let mut budget = 100usize;
            let mut texts: Vec<String> = Vec::new();
            bfs(t, &mut out, fi % nshards, &board, 0, 0, 1, &mut budget, &fen, &mut texts, cfg.with_text, &mut n_fam, true);
        }
    }
    for i in 0..cfg.playouts {
        let shard = i % nshards;
        let fen = &seeds[i % seeds.len()];
        let mut board = match BoardState::from_fen(fen) {
            Ok(b) => b,
            Err(_) => continue,
        };
        let mut par = 0u64;
        let mut via = 0usize;
        let mut texts: Vec<String> = Vec::new();
        let mut hist_keys: Vec<u64> = vec![board.zobrist_key];
        for _ply in 0..cfg.plies {
            // dedup on the full observable + hidden state of the object
            let sig = format!("{}|{:?}|{:?}", t.state(&board), board.pawn_promotion.map(|p| piece_code(Square::Full(p))), board.last_move.map(|(a, b)| (sq_of(a), sq_of(b))));
            let fresh = seen.insert(sig);
            let path = json!({"fen": fen, "texts": texts, "capsfrom": -1});
            let (ev, moves) = gen_event(t, &board, MoveGenerationMode::AllMoves, par, via, cfg.with_text, "playout", &path);
            let line = if !cfg.emit_gen {
                0
            } else if fresh || par != 0 {
                n_gen += 1;
                out.emit(shard, &ev)
            } else {
                n_dup += 1;
                0
            };
            if line != 0 && rng.gen_bool(cfg.caps_prob) {
                let mut budget = cfg.caps_budget;
                // the chain starts from the same object; its parent link is the all-moves event's parent
                let cf = texts.len();
                let mut tx = texts.clone();
                caps_chain(t, &mut out, shard, &board, par, via, 6, &mut budget, &mut rng, fen, &mut tx, cf);
            }
            if moves.is_empty() {
                break;
            }
            // choose the successor: prefer special moves and (for repetition histories) already seen keys
            let specials: Vec<usize> = (0..moves.len()).filter(|&j| is_special(&board, &moves[j])).collect();
            let repeats: Vec<usize> = (0..moves.len()).filter(|&j| hist_keys.contains(&moves[j].zobrist_key)).collect();
            // checking moves are over-sampled: positions in check (evasions, double checks, discovered checks) are where
            // generators go wrong
            let checks: Vec<usize> = if rng.gen_bool(0.3) {
                (0..moves.len()).filter(|&j| is_check(&moves[j], moves[j].to_move)).collect()
            } else {
                vec![]
            };
            let j = if !checks.is_empty() {
                checks[rng.gen_range(0..checks.len())]
            } else if !repeats.is_empty() && rng.gen_bool(cfg.repeat_bias) {
                repeats[rng.gen_range(0..repeats.len())]
            } else if !specials.is_empty() && rng.gen_bool(0.35) {
                specials[rng.gen_range(0..specials.len())]
            } else {
                rng.gen_range(0..moves.len())
            };
            texts.push(printed_move(&moves[j]));
            par = line;
            via = j + 1;
            board = moves[j].clone();
            hist_keys.push(board.zobrist_key);
            if line == 0 {
                // parent was not logged (duplicate root): the child cannot link to it
                par = 0;
                via = 0;
            }
        }
        if cfg.with_pos {
            let startpos = fen == DEFAULT_FEN_STRING && rng.gen_bool(0.5);
            // several prefixes of the game, so that the record is checked at different lengths
            let cut = if texts.is_empty() { 0 } else { rng.gen_range(0..=texts.len()) };
            for len in [cut, texts.len()] {
                out.emit(shard, &position_event(t, fen, startpos, &texts[..len]));
                n_pos += 1;
            }
        }
    }
    out.finish();
    json!({"gen_events": n_gen, "bfs_events": n_bfs, "family_events": n_fam, "dup_skipped": n_dup, "pos_events": n_pos, "lines": out.lines})
}

// Replay: walk from `fen` along `texts` through the engine's own successor objects (capture-only
// generation from index capsfrom on), logging a gen event at every position of the path.
pub fn walk(t: &Tables, dir: &str, fen: &str, texts: &[String], capsfrom: i64, with_text: bool) -> Value {
    let mut out = Shards::new(dir, "rules", 1);
    let mut board = match BoardState::from_fen(fen) {
        Ok(b) => b,
        Err(e) => return json!({"error": e}),
    };
    let mut par = 0u64;
    let mut via = 0usize;
    let mut done: Vec<String> = Vec::new();
    for i in 0..=texts.len() {
        let caps = capsfrom >= 0 && (i as i64) >= capsfrom;
        let mode = if caps { MoveGenerationMode::CapturesOnly } else { MoveGenerationMode::AllMoves };
        let path = json!({"fen": fen, "texts": done, "capsfrom": capsfrom});
        let (ev, moves) = gen_event(t, &board, mode, par, via, with_text && !caps, "walk", &path);
        let line = out.emit(0, &ev);
        if !caps && capsfrom == i as i64 {
            // never happens (caps computed above); kept for clarity
        }
        if i == texts.len() {
            break;
        }
        match moves.iter().position(|m| printed_move(m) == texts[i]) {
            Some(j) => {
                par = line;
                via = j + 1;
                board = moves[j].clone();
                done.push(texts[i].clone());
            }
            None => {
                out.finish();
                return json!({"error": format!("move {} not generated at index {}", texts[i], i), "lines": out.lines});
            }
        }
    }
    out.finish();
    json!({"lines": out.lines})
}
