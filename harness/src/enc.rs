// Encoding between the engine's BoardState and the specification's position records.
use crate::board::*;
use crate::move_generation::CastlingType;
use crate::zobrist::ZobristHasher;
use serde_json::{json, Value};
use std::collections::HashMap;

pub fn piece_code(sq: Square) -> u32 {
    match sq {
        Square::Full(p) => {
            let k = match p.kind {
                PieceKind::Pawn => 1,
                PieceKind::Knight => 2,
                PieceKind::Bishop => 3,
                PieceKind::Rook => 4,
                PieceKind::Queen => 5,
                PieceKind::King => 6,
            };
            if p.color == PieceColor::White {
                k
            } else {
                k + 6
            }
        }
        _ => 0,
    }
}

pub fn piece_from_code(c: u32) -> Option<Piece> {
    if c == 0 || c > 12 {
        return None;
    }
    let color = if c <= 6 { PieceColor::White } else { PieceColor::Black };
    let kind = match (c - 1) % 6 + 1 {
        1 => PieceKind::Pawn,
        2 => PieceKind::Knight,
        3 => PieceKind::Bishop,
        4 => PieceKind::Rook,
        5 => PieceKind::Queen,
        _ => PieceKind::King,
    };
    Some(Piece { color, kind })
}

// spec square 1..64 (a1 = 1) <-> engine Point(row, col)
pub fn sq_of(p: Point) -> u32 {
    let ok = |x: usize| (BOARD_START..BOARD_END).contains(&x);
    if !ok(p.0) || !ok(p.1) {
        return 0;
    }
    (8 * (9 - p.0) + (p.1 - BOARD_START) + 1) as u32
}

pub fn point_of(s: u32) -> Point {
    let f = ((s - 1) % 8) as usize; // 0..7
    let r = ((s - 1) / 8) as usize + 1; // 1..8
    Point(10 - r, f + BOARD_START)
}

pub struct Tables {
    pub hasher: ZobristHasher,
    pub feat: HashMap<u64, u32>,
    pub consts: Vec<(u64, u32)>,
}

impl Tables {
    pub fn new() -> Tables {
        let hasher = ZobristHasher::create_zobrist_hasher();
        let mut consts = Vec::new();
        for pc in 1..=12u32 {
            for s in 1..=64u32 {
                let v = hasher.get_val_for_piece(piece_from_code(pc).unwrap(), point_of(s));
                consts.push((v, 64 * (pc - 1) + s));
            }
        }
        consts.push((hasher.get_black_to_move_val(), 769));
        consts.push((hasher.get_val_for_castling(CastlingType::WhiteKingSide), 770));
        consts.push((hasher.get_val_for_castling(CastlingType::WhiteQueenSide), 771));
        consts.push((hasher.get_val_for_castling(CastlingType::BlackKingSide), 772));
        consts.push((hasher.get_val_for_castling(CastlingType::BlackQueenSide), 773));
        for f in 0..8usize {
            consts.push((hasher.get_val_for_en_passant(f + BOARD_START), 774 + f as u32));
        }
        let mut feat = HashMap::new();
        for (v, id) in &consts {
            feat.insert(*v, *id);
        }
        Tables { hasher, feat, consts }
    }

    // key computed from scratch through the public getters only
    pub fn scratch_key(&self, b: &BoardState) -> u64 {
        let mut k = 0u64;
        for row in BOARD_START..BOARD_END {
            for col in BOARD_START..BOARD_END {
                if let Square::Full(p) = b.board[row][col] {
                    k ^= self.hasher.get_val_for_piece(p, Point(row, col));
                }
            }
        }
        if b.to_move == PieceColor::Black {
            k ^= self.hasher.get_black_to_move_val();
        }
        if b.white_king_side_castle {
            k ^= self.hasher.get_val_for_castling(CastlingType::WhiteKingSide);
        }
        if b.white_queen_side_castle {
            k ^= self.hasher.get_val_for_castling(CastlingType::WhiteQueenSide);
        }
        if b.black_king_side_castle {
            k ^= self.hasher.get_val_for_castling(CastlingType::BlackKingSide);
        }
        if b.black_queen_side_castle {
            k ^= self.hasher.get_val_for_castling(CastlingType::BlackQueenSide);
        }
        if let Some(p) = b.pawn_double_move {
            if (BOARD_START..BOARD_END).contains(&p.1) {
                k ^= self.hasher.get_val_for_en_passant(p.1);
            }
        }
        k
    }

    // the features whose constants XOR to `diff`: [] if 0, up to three ids, [0] = unknown
    pub fn residue(&self, diff: u64) -> Vec<u32> {
        if diff == 0 {
            return vec![];
        }
        if let Some(id) = self.feat.get(&diff) {
            return vec![*id];
        }
        // resolving pairs / triples is quadratic: on a badly broken tree only the first few hundred differences are
        // resolved, the rest are reported as unknown (id 0)
        static EXPENSIVE: std::sync::atomic::AtomicUsize = std::sync::atomic::AtomicUsize::new(0);
        if EXPENSIVE.fetch_add(1, std::sync::atomic::Ordering::Relaxed) > 300 {
            return vec![0];
        }
        for (v, id) in &self.consts {
            if let Some(id2) = self.feat.get(&(diff ^ v)) {
                let mut r = vec![*id, *id2];
                r.sort();
                return r;
            }
        }
        for (i, (v, id)) in self.consts.iter().enumerate() {
            for (v2, id2) in self.consts.iter().skip(i + 1) {
                if let Some(id3) = self.feat.get(&(diff ^ v ^ v2)) {
                    let mut r = vec![*id, *id2, *id3];
                    r.sort();
                    return r;
                }
            }
        }
        vec![0]
    }

    // all 781 constants non-zero and pairwise distinct
    pub fn audit(&self) -> (usize, usize, usize) {
        let zeros = self.consts.iter().filter(|(v, _)| *v == 0).count();
        (self.consts.len(), self.feat.len(), zeros)
    }

    pub fn state(&self, b: &BoardState) -> Value {
        let mut ranks = Vec::new();
        for rank in 1..=8usize {
            let row = 10 - rank;
            let mut v: u64 = 0;
            let mut mul: u64 = 1;
            for col in BOARD_START..BOARD_END {
                v += mul * piece_code(b.board[row][col]) as u64;
                mul *= 13;
            }
            ranks.push(v);
        }
        let cr = (b.white_king_side_castle as u32)
            + 2 * (b.white_queen_side_castle as u32)
            + 4 * (b.black_king_side_castle as u32)
            + 8 * (b.black_queen_side_castle as u32);
        let (from, to) = match b.last_move {
            Some((f, t)) => (sq_of(f), sq_of(t)),
            None => (0, 0),
        };
        let promo = match b.pawn_promotion {
            Some(p) => piece_code(Square::Full(p)),
            None => 0,
        };
        json!({
            "r": ranks,
            "stm": if b.to_move == PieceColor::White { 0 } else { 1 },
            "cr": cr,
            "ep": b.pawn_double_move.map(sq_of).unwrap_or(0),
            "wk": sq_of(b.white_king_location),
            "bk": sq_of(b.black_king_location),
            "d": [from, to, promo],
            "key": format!("{:016x}", b.zobrist_key),
            "res": self.residue(b.zobrist_key ^ self.scratch_key(b)),
        })
    }

    // Construction of a BoardState from a specification position.
    pub fn build(&self, v: &Value) -> BoardState {
        let mut board = [[Square::Boundary; 12]; 12];
        let mut wk = Point(0, 0);
        let mut bk = Point(0, 0);
        for rank in 1..=8usize {
            let mut x = v["r"][rank - 1].as_u64().unwrap();
            for f in 0..8usize {
                let code = (x % 13) as u32;
                x /= 13;
                let pt = Point(10 - rank, f + BOARD_START);
                board[pt.0][pt.1] = match piece_from_code(code) {
                    Some(p) => {
                        if p.kind == PieceKind::King {
                            if p.color == PieceColor::White {
                                wk = pt
                            } else {
                                bk = pt
                            }
                        }
                        Square::Full(p)
                    }
                    None => Square::Empty,
                };
            }
        }
        let cr = v["cr"].as_u64().unwrap_or(0);
        let ep = v["ep"].as_u64().unwrap_or(0) as u32;
        // The object is taken from the engine's own loader for the same position (so that fields this harness does not
        // know - caches a later version may add - are whatever the engine itself derives for it; a struct literal would
        // stop compiling the day a field is added), then every field the specification talks about is overwritten
        // directly, so that a defect of the loader cannot leak into what is built here.
        let stm_white = v["stm"].as_u64().unwrap_or(0) == 0;
        let mut fen = String::new();
        for row in BOARD_START..BOARD_END {
            let mut run = 0;
            for col in BOARD_START..BOARD_END {
                let c = piece_code(board[row][col]);
                if c == 0 {
                    run += 1;
                } else {
                    if run > 0 {
                        fen.push_str(&run.to_string());
                        run = 0;
                    }
                    fen.push(b"PNBRQKpnbrqk"[(c - 1) as usize] as char);
                }
            }
            if run > 0 {
                fen.push_str(&run.to_string());
            }
            if row + 1 < BOARD_END {
                fen.push('/');
            }
        }
        let mut rights = String::new();
        for (bit, ch) in [(1u64, 'K'), (2, 'Q'), (4, 'k'), (8, 'q')] {
            if cr & bit != 0 {
                rights.push(ch);
            }
        }
        if rights.is_empty() {
            rights.push('-');
        }
        let epname = if ep == 0 { "-".to_string() } else { format!("{}{}", (b'a' + ((ep - 1) % 8) as u8) as char, (ep - 1) / 8 + 1) };
        let fen = format!("{} {} {} {} 0 1", fen, if stm_white { "w" } else { "b" }, rights, epname);
        let loaded = std::panic::catch_unwind(|| BoardState::from_fen(&fen).ok()).ok().flatten();
        let mut b = match loaded {
            Some(b) => b,
            None => BoardState::from_fen("8/8/8/8/8/8/8/8 w - - 0 1").expect("no template board from the loader"),
        };
        b.board = board;
        b.to_move = if stm_white { PieceColor::White } else { PieceColor::Black };
        b.pawn_double_move = if ep == 0 { None } else { Some(point_of(ep)) };
        b.white_king_location = wk;
        b.black_king_location = bk;
        b.white_king_side_castle = cr & 1 != 0;
        b.white_queen_side_castle = cr & 2 != 0;
        b.black_king_side_castle = cr & 4 != 0;
        b.black_queen_side_castle = cr & 8 != 0;
        b.order_heuristic = 0;
        b.last_move = None;
        b.pawn_promotion = None;
        b.zobrist_key = 0;
        b.zobrist_key = self.scratch_key(&b);
        b
    }
}

// FEN rendering of an engine board (harness side; the specification re-derives it with ToFen)
pub fn to_fen(b: &BoardState, half: u64, full: u64) -> String {
    let mut s = String::new();
    for row in BOARD_START..BOARD_END {
        let mut run = 0;
        for col in BOARD_START..BOARD_END {
            let c = piece_code(b.board[row][col]);
            if c == 0 {
                run += 1;
            } else {
                if run > 0 {
                    s += &run.to_string();
                    run = 0;
                }
                s.push("PNBRQKpnbrqk".chars().nth((c - 1) as usize).unwrap());
            }
        }
        if run > 0 {
            s += &run.to_string();
        }
        if row != BOARD_END - 1 {
            s.push('/');
        }
    }
    s += if b.to_move == PieceColor::White { " w " } else { " b " };
    let mut r = String::new();
    if b.white_king_side_castle {
        r.push('K')
    }
    if b.white_queen_side_castle {
        r.push('Q')
    }
    if b.black_king_side_castle {
        r.push('k')
    }
    if b.black_queen_side_castle {
        r.push('q')
    }
    if r.is_empty() {
        r.push('-')
    }
    s += &r;
    s.push(' ');
    match b.pawn_double_move {
        Some(p) => s += &sq_name(sq_of(p)),
        None => s.push('-'),
    }
    s += &format!(" {} {}", half, full);
    s
}

// independent square naming (does not go through the engine's Display for Point)
pub fn sq_name(s: u32) -> String {
    if s == 0 || s > 64 {
        return "??".to_string();
    }
    let f = (s - 1) % 8;
    let r = (s - 1) / 8;
    format!("{}{}", (b'a' + f as u8) as char, (b'1' + r as u8) as char)
}

// the text the engine itself prints for the move that produced `b` (through its own bestmove printer)
pub fn printed_move(b: &BoardState) -> String {
    crate::verif_hooks::install_log();
    // a panic of the code under test is data (the move text is then "PANIC", which no rule-book text equals), and what follows
    // the move on the line (`ponder ...`) is not part of the move
    let r = std::panic::catch_unwind(std::panic::AssertUnwindSafe(|| crate::uci::verif_send_best_move_to_gui(b)));
    let log = crate::verif_hooks::take_log();
    if r.is_err() {
        return "PANIC".to_string();
    }
    let line = log.iter().find(|e| e.kind == "out").map(|e| e.text.clone()).unwrap_or_default();
    let rest = line.strip_prefix("bestmove ").unwrap_or(&line);
    rest.split(' ').next().unwrap_or("").to_string()
}

pub fn move_text(b: &BoardState) -> String {
    let (f, t) = b.last_move.unwrap();
    match b.pawn_promotion {
        Some(p) => format!("{}{}{}", f, t, p.kind.alg()),
        None => format!("{}{}", f, t),
    }
}
