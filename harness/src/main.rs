#![allow(dead_code, unused_imports, clippy::all)]
include!(concat!(env!("OUT_DIR"), "/repo_mods.rs"));
mod enc;
mod rules;
mod misc;
mod srch;

use serde_json::{json, Value};
use std::collections::HashMap;

pub fn seeds() -> Vec<String> {
    include_str!("../seeds.txt").lines().filter(|l| !l.trim().is_empty()).map(|l| l.trim().to_string()).collect()
}

pub struct Args {
    pub cmd: String,
    pub kv: HashMap<String, String>,
}
impl Args {
    fn parse() -> Args {
        let mut it = std::env::args().skip(1);
        let cmd = it.next().unwrap_or_default();
        let mut kv = HashMap::new();
        let rest: Vec<String> = it.collect();
        let mut i = 0;
        while i < rest.len() {
            if let Some(k) = rest[i].strip_prefix("--") {
                let v = if i + 1 < rest.len() && !rest[i + 1].starts_with("--") {
                    i += 1;
                    rest[i].clone()
                } else {
                    "1".to_string()
                };
                kv.insert(k.to_string(), v);
            }
            i += 1;
        }
        Args { cmd, kv }
    }
    pub fn s(&self, k: &str, d: &str) -> String {
        self.kv.get(k).cloned().unwrap_or_else(|| d.to_string())
    }
    pub fn n(&self, k: &str, d: u64) -> u64 {
        self.kv.get(k).and_then(|v| v.parse().ok()).unwrap_or(d)
    }
    pub fn f(&self, k: &str, d: f64) -> f64 {
        self.kv.get(k).and_then(|v| v.parse().ok()).unwrap_or(d)
    }
}

fn main() {
    // panics of code under test are data: keep stderr quiet, the harness records them
    // (VERIF_PANIC_MSG=1 prints them, for diagnosis)
    if std::env::var("VERIF_PANIC_MSG").is_ok() {
        std::panic::set_hook(Box::new(|info| eprintln!("PANIC: {}", info)));
    } else {
        std::panic::set_hook(Box::new(|_| {}));
    }
    let a = Args::parse();
    let t = enc::Tables::new();
    let summary: Value = match a.cmd.as_str() {
        "rules" => {
            let cfg = rules::RulesCfg {
                playouts: a.n("playouts", 100) as usize,
                plies: a.n("plies", 60) as usize,
                caps_prob: a.f("caps-prob", 0.0),
                caps_budget: a.n("caps-budget", 12) as usize,
                with_text: a.n("text", 0) != 0,
                with_pos: a.n("pos", 0) != 0,
                repeat_bias: a.f("repeat-bias", 0.0),
                emit_gen: a.n("gen", 1) != 0,
                bfs_depth: a.n("bfs", 0) as usize,
                bfs_budget: a.n("bfs-budget", 6000) as usize,
                family: a.n("family", 0) as usize,
            };
            let mut sd = seeds();
            if let Some(p) = a.kv.get("seeds-file") {
                sd = std::fs::read_to_string(p).unwrap().lines().filter(|l| !l.trim().is_empty()).map(|l| l.trim().to_string()).collect();
            }
            rules::run(&t, &sd, &a.s("out", "."), a.n("shards", 16) as usize, a.n("seed", 1), &cfg)
        }
        "walk" => {
            let spec: Value = serde_json::from_str(&std::fs::read_to_string(a.s("replay", "")).unwrap()).unwrap();
            let r = &spec["replay"];
            let texts: Vec<String> = r["texts"].as_array().map(|v| v.iter().map(|x| x.as_str().unwrap().to_string()).collect()).unwrap_or_default();
            rules::walk(&t, &a.s("out", "."), r["fen"].as_str().unwrap(), &texts, r["capsfrom"].as_i64().unwrap_or(-1), a.n("text", 1) != 0)
        }
        "chk" => misc::chk_families(&t, &a.s("out", "."), a.n("shards", 16) as usize, a.n("seed", 1), a.n("stride", 8), a.n("randoms", 2000)),
        "fen" => misc::fen_events(&t, &seeds(), &a.s("out", "."), a.n("shards", 16) as usize, a.n("seed", 1), a.n("playouts", 40) as usize, a.n("plies", 30) as usize, a.n("fuzz", 3) as usize, a.n("random-strings", 500) as usize),
        "eval" => misc::eval_events(&t, &a.s("out", "."), a.n("shards", 16) as usize, a.n("seed", 1), a.n("randoms", 5000)),
        "rechk" | "reeval" | "refen" => misc::replay_events(&t, &a.s("in", ""), &a.s("out", "")),
        "position" => {
            // one `position ...` command through play_out_position (replay of pos events)
            let cmd = a.s("cmd", "position startpos");
            let toks: Vec<String> = cmd.split(' ').map(|x| x.to_string()).collect();
            let (fen, startpos, mi) = if toks.len() > 1 && toks[1] == "fen" {
                (toks[2..8.min(toks.len())].join(" "), false, 8)
            } else {
                (board::DEFAULT_FEN_STRING.to_string(), true, 2)
            };
            let texts: Vec<String> = if toks.len() > mi && toks[mi] == "moves" { toks[mi + 1..].to_vec() } else { vec![] };
            let ev = rules::position_event(&t, &fen, startpos, &texts);
            let mut sh = rules::Shards::new(&a.s("out", "."), "rules", 1);
            sh.emit(0, &ev);
            sh.finish();
            json!({"events": 1})
        }
        "scen" => {
            let v = srch::scenarios(&t, &seeds(), a.n("seed", 1), a.n("small", 10) as usize, a.n("mate", 10) as usize, a.n("rep", 10) as usize, a.n("game", 5) as usize, a.n("term", 0) as usize, a.n("fam", 0) as usize, a.n("deep", 0) as usize);
            std::fs::write(a.s("out", "scen.json"), serde_json::to_string(&v).unwrap()).unwrap();
            json!({"scenarios": v.as_array().unwrap().len()})
        }
        "expiry" | "trees" => {
            let v: Value = serde_json::from_str(&std::fs::read_to_string(a.s("scen", "scen.json")).unwrap()).unwrap();
            let tags: Vec<String> = a.s("tags", "small,mate,rep,game,fam").split(',').map(|x| x.to_string()).collect();
            let cmds: Vec<String> = v.as_array().unwrap().iter().filter(|x| tags.contains(&x["tag"].as_str().unwrap().to_string()))
                .map(|x| x["cmd"].as_str().unwrap().to_string()).collect();
            if a.cmd == "expiry" {
                srch::expiry_enumeration(&t, &cmds, &a.s("out", "."), a.n("shards", 16) as usize, a.n("seed", 1), a.n("depth", 3) as i64, a.n("budget", 200000), a.n("cap", 3000), &a.s("tag", "expiry"))
            } else {
                srch::tree_events(&t, &cmds, &a.s("out", "."), a.n("shards", 16) as usize, a.n("depth", 3) as u8, a.n("budget", 200000), a.n("cap", 60000) as usize)
            }
        }
        "matecert" => {
            let cmds: Vec<String> = match a.kv.get("scen") {
                Some(p) => {
                    let v: Value = serde_json::from_str(&std::fs::read_to_string(p).unwrap()).unwrap();
                    v.as_array().unwrap().iter().map(|x| x["cmd"].as_str().unwrap().to_string()).collect()
                }
                None => Vec::new(),
            };
            srch::mate_certs(&t, &cmds, &a.s("out", "."), a.n("shards", 16) as usize, a.n("seed", 1), a.n("budget", 150000), a.n("lo", 3) as i64, a.n("hi", 6) as i64,
                             a.n("randoms", 100) as usize, a.n("node-cap", 4000) as usize, -(a.n("claim-shorter", 0) as i64))
        }
        "famreplay" => misc::family_replay(&t, &a.s("in", "")),
        "gamereplay" => misc::game_replay(&t, &a.s("in", "")),
        "keypairs" => misc::key_pairs(&t, &seeds(), &a.s("out", "."), a.n("shards", 16) as usize, a.n("seed", 1), a.n("playouts", 40) as usize, a.n("plies", 20) as usize),
        "slices" => misc::slice_events(&a.s("in", ""), &a.s("out", "")),
        "heavy" => {
            let v = srch::heavy_positions(&t, a.n("seed", 1), a.n("n", 10) as usize, a.n("queens", 8) as usize);
            std::fs::write(a.s("out", "heavy.json"), serde_json::to_string(&v).unwrap()).unwrap();
            json!({"positions": v.as_array().unwrap().len()})
        }
        "audit" => {
            let (n, distinct, zeros) = t.audit();
            json!({"constants": n, "distinct": distinct, "zeros": zeros})
        }
        _ => {
            eprintln!("unknown subcommand {:?}", a.cmd);
            std::process::exit(2);
        }
    };
    println!("{}", summary);
}
