// Drivers for check detection families (C06), FEN loading (C15) and evaluation (C14).
use crate::board::*;
use crate::enc::*;
use crate::evaluation::get_evaluation;
use crate::move_generation::*;
use crate::rules::Shards;
use rand::rngs::StdRng;
use rand::{Rng, SeedableRng};
use serde_json::{json, Value};
use std::panic::{catch_unwind, AssertUnwindSafe};

// placement: list of (square 1..64, piece code 1..12)
pub fn board_from(t: &Tables, pcs: &[(u32, u32)], stm: u32, cr: u32, ep: u32) -> BoardState {
    let mut ranks = [0u64; 8];
    let pow13: [u64; 8] = [1, 13, 169, 2197, 28561, 371293, 4826809, 62748517];
    for (s, c) in pcs {
        let f = ((s - 1) % 8) as usize;
        let r = ((s - 1) / 8) as usize;
        ranks[r] += pow13[f] * (*c as u64);
    }
    t.build(&json!({"r": ranks, "stm": stm, "cr": cr, "ep": ep}))
}

fn chk_event(t: &Tables, b: &BoardState, fam: &str) -> Value {
    json!({"ev": "chk", "fam": fam, "pos": t.state(b),
           "chk": [is_check(b, PieceColor::White), is_check(b, PieceColor::Black)]})
}

// between squares strictly between a and b on a common line (empty if not aligned)
fn between(a: u32, b: u32) -> Vec<u32> {
    let (fa, ra, fb, rb) = (((a - 1) % 8) as i32, ((a - 1) / 8) as i32, ((b - 1) % 8) as i32, ((b - 1) / 8) as i32);
    let (df, dr) = (fb - fa, rb - ra);
    if !(df == 0 || dr == 0 || df.abs() == dr.abs()) || (df == 0 && dr == 0) {
        return vec![];
    }
    let (sf, sr) = (df.signum(), dr.signum());
    let mut v = vec![];
    let (mut f, mut r) = (fa + sf, ra + sr);
    while (f, r) != (fb, rb) {
        v.push((8 * r + f + 1) as u32);
        f += sf;
        r += sr;
    }
    v
}

/*
   Check-detection families, enumerated completely (stride 1) or sampled (every stride-th member, offset from the seed):
   A: own king x enemy piece kind x square, enemy king far away
   B: the same with one blocker strictly between attacker and king (own pawn, enemy pawn, enemy knight)
   C: both kings on every ordered pair of squares, nothing else
   D: random placements with many pieces, legal or not
*/
pub fn chk_families(t: &Tables, dir: &str, nshards: usize, seed: u64, stride: u64, randoms: u64) -> Value {
    let mut out = Shards::new(dir, "rules", nshards);
    let mut rng = StdRng::seed_from_u64(seed);
    let mut n = 0u64;
    let mut idx = 0u64;
    let off = seed % stride;
    let mut counts = [0u64; 4];
    let mut emit = |out: &mut Shards, v: Value, n: &mut u64| {
        out.emit((*n % nshards as u64) as usize, &v);
        *n += 1;
    };
    for c in 0..2u32 {
        let own_king = 6 + 6 * c;
        let enemy = 1 - c;
        let enemy_king = 6 + 6 * enemy;
        for ks in 1..=64u32 {
            for kind in 1..=5u32 {
                let attacker = kind + 6 * enemy;
                for a in 1..=64u32 {
                    if a == ks {
                        continue;
                    }
                    idx += 1;
                    if idx % stride != off {
                        continue;
                    }
                    // enemy king somewhere else, chosen pseudo randomly
                    let mut ek;
                    loop {
                        ek = rng.gen_range(1..=64u32);
                        if ek != ks && ek != a {
                            break;
                        }
                    }
                    let b = board_from(t, &[(ks, own_king), (a, attacker), (ek, enemy_king)], c, 0, 0);
                    emit(&mut out, chk_event(t, &b, "A"), &mut n);
                    counts[0] += 1;
                    // blockers
                    for blk in between(a, ks) {
                        if blk == ek {
                            continue;
                        }
                        for bp in [1 + 6 * c, 1 + 6 * enemy, 2 + 6 * enemy] {
                            idx += 1;
                            if idx % stride != off {
                                continue;
                            }
                            let b = board_from(t, &[(ks, own_king), (a, attacker), (ek, enemy_king), (blk, bp)], c, 0, 0);
                            emit(&mut out, chk_event(t, &b, "B"), &mut n);
                            counts[1] += 1;
                        }
                    }
                }
            }
        }
    }
    for wk in 1..=64u32 {
        for bk in 1..=64u32 {
            if wk == bk {
                continue;
            }
            idx += 1;
            if stride > 1 && idx % (stride.min(4)) != off % stride.min(4) {
                continue;
            }
            let b = board_from(t, &[(wk, 6), (bk, 12)], 0, 0, 0);
            emit(&mut out, chk_event(t, &b, "C"), &mut n);
            counts[2] += 1;
        }
    }
    for _ in 0..randoms {
        let mut sqs: Vec<u32> = (1..=64).collect();
        for i in (1..64).rev() {
            let j = rng.gen_range(0..=i);
            sqs.swap(i, j);
        }
        let np = rng.gen_range(0..=24usize);
        let mut pcs = vec![(sqs[0], 6u32), (sqs[1], 12u32)];
        for i in 0..np {
            let kind = rng.gen_range(1..=5u32);
            let col = rng.gen_range(0..2u32);
            pcs.push((sqs[2 + i], kind + 6 * col));
        }
        let b = board_from(t, &pcs, rng.gen_range(0..2), 0, 0);
        emit(&mut out, chk_event(t, &b, "D"), &mut n);
        counts[3] += 1;
    }
    // family E: a king whose every neighbouring square holds one of its own men, and one enemy man beyond the wall - on each
    // of the knight's squares (check: a knight does not come in over a neighbour) and on a few squares from which a slider
    // looks at the wall (no check)
    let mut n_e = 0u64;
    for c in 0..2u32 {
        let enemy = 1 - c;
        for ks in 1..=64u32 {
            let (kf, kr) = (((ks - 1) % 8) as i32, ((ks - 1) / 8) as i32);
            let mut wall: Vec<(u32, u32)> = Vec::new();
            for (df, dr) in [(1, 0), (-1, 0), (0, 1), (0, -1), (1, 1), (1, -1), (-1, 1), (-1, -1)] {
                let (f, r) = (kf + df, kr + dr);
                if (0..8).contains(&f) && (0..8).contains(&r) {
                    let kinds: &[u32] = if r == 0 || r == 7 { &[2, 3, 4, 5] } else { &[1, 1, 2, 3, 4, 5] };
                    wall.push(((8 * r + f + 1) as u32, kinds[rng.gen_range(0..kinds.len())] + 6 * c));
                }
            }
            let mut outside: Vec<(u32, u32)> = Vec::new();
            for (df, dr) in [(1, 2), (2, 1), (-1, 2), (-2, 1), (1, -2), (2, -1), (-1, -2), (-2, -1)] {
                let (f, r) = (kf + df, kr + dr);
                if (0..8).contains(&f) && (0..8).contains(&r) {
                    outside.push(((8 * r + f + 1) as u32, 2 + 6 * enemy));
                }
            }
            for _ in 0..3 {
                let a = rng.gen_range(1..=64u32);
                let (af, ar) = (((a - 1) % 8) as i32, ((a - 1) / 8) as i32);
                if (af - kf).abs() <= 1 && (ar - kr).abs() <= 1 {
                    continue;
                }
                outside.push((a, [3u32, 4, 5, 2][rng.gen_range(0..4)] + 6 * enemy));
            }
            for (a, pc) in outside {
                let mut ek;
                loop {
                    ek = rng.gen_range(1..=64u32);
                    let (ef, er) = (((ek - 1) % 8) as i32, ((ek - 1) / 8) as i32);
                    if ek != a && ((ef - kf).abs() > 1 || (er - kr).abs() > 1) {
                        break;
                    }
                }
                let mut pcs = vec![(ks, 6 + 6 * c), (ek, 6 + 6 * enemy), (a, pc)];
                pcs.extend(wall.iter().cloned());
                let b = board_from(t, &pcs, c, 0, 0);
                emit(&mut out, chk_event(t, &b, "E"), &mut n);
                n_e += 1;
            }
        }
    }
    out.finish();
    json!({"events": n, "family_A": counts[0], "family_B": counts[1], "family_C": counts[2], "family_D": counts[3], "family_E": n_e,
           "stride": stride, "exhaustive": stride == 1})
}

// ---------------------------------------------------------------------------------------------
// FEN loading
// ---------------------------------------------------------------------------------------------
pub fn fen_load_event(t: &Tables, input: &str, kind: &str, spec: Option<(&BoardState, u64, u64)>) -> Value {
    let owned = input.to_string();
    let r = catch_unwind(AssertUnwindSafe(|| BoardState::from_fen(&owned).map_err(|e| e.to_string())));
    let mut ev = json!({"ev": "fen", "kind": kind, "input": input});
    match r {
        Ok(Ok(b)) => {
            ev["outcome"] = json!("ok");
            ev["loaded"] = t.state(&b);
        }
        Ok(Err(e)) => {
            ev["outcome"] = json!("err");
            ev["error"] = json!(e);
        }
        Err(_) => {
            ev["outcome"] = json!("panic");
        }
    }
    if let Some((b, half, full)) = spec {
        ev["spec"] = t.state(b);
        ev["half"] = json!(half);
        ev["full"] = json!(full);
    }
    ev
}

const COUNTERS: [u64; 12] = [0, 1, 49, 50, 99, 100, 255, 256, 300, 5949, 65535, 1000000];

pub fn mutate_fen(rng: &mut StdRng, base: &str) -> String {
    let alphabet: Vec<char> = "rnbqkpRNBQKP0123456789/ -wbKQkqabcdefghxz\t\n\r\u{e9}\u{df}\u{663}\u{ff19}\u{a0}\u{0}".chars().collect();
    let eps = ["e", "e33", "ex", "\u{e9}", "i3", "a0", "a9", "E3", "--", "", "3e", "e\u{e9}", "h10", "\u{ff45}3"];
    let cnts = ["-1", "256", "1.5", "\u{663}", "", "+5", "99999999999999999999", "0x10", " 7"];
    let mut fields: Vec<String> = base.split(' ').map(|x| x.to_string()).collect();
    match rng.gen_range(0..10) {
        0 => {
            // drop a field
            if !fields.is_empty() {
                let i = rng.gen_range(0..fields.len());
                fields.remove(i);
            }
        }
        1 => {
            let i = rng.gen_range(0..fields.len());
            let f = fields[i].clone();
            fields.insert(i, f);
        }
        2 => {
            let i = rng.gen_range(0..fields.len());
            fields[i] = String::new();
        }
        3 => {
            if fields.len() > 3 {
                fields[3] = eps[rng.gen_range(0..eps.len())].to_string();
            }
        }
        4 => {
            if fields.len() > 5 {
                let i = rng.gen_range(4..6);
                fields[i] = cnts[rng.gen_range(0..cnts.len())].to_string();
            }
        }
        5 => {
            // row with 7 / 9 squares, digits 0 / 9
            let mut rows: Vec<String> = fields[0].split('/').map(|x| x.to_string()).collect();
            let i = rng.gen_range(0..rows.len());
            rows[i] = ["7", "9", "0", "44p", "pppppppp1", "8/8", "", "p7p", "1p6k", "8ppp", "7PPPP", "p7ppp", "44nnn", "8p", "71pp", "6rrrr", "5k5", "8PPPPPPPP"][rng.gen_range(0..18)].to_string();
            fields[0] = rows.join("/");
        }
        6 => {
            // very long input
            let n = rng.gen_range(100..10000);
            fields[0] = fields[0].repeat(n / fields[0].len().max(1) + 1);
        }
        _ => {
            // character level edits
            let mut s: Vec<char> = fields.join(" ").chars().collect();
            for _ in 0..rng.gen_range(1..4) {
                match rng.gen_range(0..3) {
                    0 => {
                        if !s.is_empty() {
                            let i = rng.gen_range(0..s.len());
                            s.remove(i);
                        }
                    }
                    1 => {
                        let i = rng.gen_range(0..=s.len());
                        s.insert(i, alphabet[rng.gen_range(0..alphabet.len())]);
                    }
                    _ => {
                        if !s.is_empty() {
                            let i = rng.gen_range(0..s.len());
                            s[i] = alphabet[rng.gen_range(0..alphabet.len())];
                        }
                    }
                }
            }
            return s.into_iter().collect();
        }
    }
    fields.join(" ")
}

pub fn fen_events(t: &Tables, seeds: &[String], dir: &str, nshards: usize, seed: u64, playouts: usize, plies: usize, fuzz_per_pos: usize, random_strings: usize) -> Value {
    let mut out = Shards::new(dir, "rules", nshards);
    let mut rng = StdRng::seed_from_u64(seed);
    let (mut n_spec, mut n_fuzz) = (0u64, 0u64);
    let mut n = 0usize;
    let mut cli: Vec<Value> = Vec::new();
    for i in 0..playouts {
        let mut board = match BoardState::from_fen(&seeds[i % seeds.len()]) {
            Ok(b) => b,
            Err(_) => continue,
        };
        for ply in 0..plies {
            let half = COUNTERS[rng.gen_range(0..COUNTERS.len())];
            let full = COUNTERS[rng.gen_range(1..COUNTERS.len())];
            let fen = to_fen(&board, half, full);
            if board.pawn_double_move.is_some() {
                // the same placement loaded first WITHOUT its en-passant field (a loader that remembers its last input
                // must not confuse the two)
                let mut nb = board.clone();
                nb.pawn_double_move = None;
                nb.zobrist_key = t.scratch_key(&nb);
                out.emit(n % nshards, &fen_load_event(t, &to_fen(&nb, half, full), "spec", Some((&nb, half, full))));
                n += 1;
                n_spec += 1;
            }
            out.emit(n % nshards, &fen_load_event(t, &fen, "spec", Some((&board, half, full))));
            n += 1;
            n_spec += 1;
            if (i + ply) % 50 == 0 {
                cli.push(json!({"kind": "spec", "input": fen}));
            }
            for _ in 0..fuzz_per_pos {
                let m = mutate_fen(&mut rng, &fen);
                out.emit(n % nshards, &fen_load_event(t, &m, "fuzz", None));
                if n_fuzz % 97 == 0 {
                    cli.push(json!({"kind": "fuzz", "input": m}));
                }
                n += 1;
                n_fuzz += 1;
            }
            let moves = generate_moves(&board, MoveGenerationMode::AllMoves, &t.hasher);
            if moves.is_empty() {
                break;
            }
            board = moves[rng.gen_range(0..moves.len())].clone();
        }
    }
    for _ in 0..random_strings {
        let len = rng.gen_range(0..80);
        let s: String = (0..len)
            .map(|_| {
                let c = rng.gen_range(0..0x250u32);
                char::from_u32(c).unwrap_or('?')
            })
            .collect();
        out.emit(n % nshards, &fen_load_event(t, &s, "fuzz", None));
        n += 1;
        n_fuzz += 1;
    }
    // fixed regression strings
    for s in ["rnbqkbnr/pppppppp/8/8/8/8/PPPPPPPP/RNBQKBNR w KQkq ex 0 1", "rnbqkbnr/pppppppp/8/8/8/8/PPPPPPPP/RNBQKBNR w KQkq \u{e9} 0 1",
              "", " ", "8/8/8/8/8/8/8/8 w - - 0", "rnbqkbnr/pppppppp/8/8/8/8/PPPPPPPP/RNBQKBNR w KQkq e\u{e9} 0 1"] {
        out.emit(n % nshards, &fen_load_event(t, s, "fuzz", None));
        cli.push(json!({"kind": "fuzz", "input": s}));
        n += 1;
        n_fuzz += 1;
    }
    // every string of at most two characters over a small alphabet of separators, terminators and field fragments (what is
    // left of an input after trimming can be EMPTY), and well-formed records wrapped in line terminators
    let alpha = ['\n', '\r', ' ', '\t', '/', '-', 'w', '8', 'K', 'a', '1', '\u{e9}'];
    let mut shorts: Vec<String> = alpha.iter().map(|c| c.to_string()).collect();
    for a in alpha {
        for b in alpha {
            shorts.push(format!("{}{}", a, b));
        }
    }
    for w in ["\n", "\r\n", "\r", "\n\n", " \n"] {
        shorts.push(format!("{}{}", DEFAULT_FEN_STRING, w));
        shorts.push(format!("{}{}", w, DEFAULT_FEN_STRING));
        shorts.push(format!("8/8/8/8/8/8/8/8 w - - 0 1{}", w));
    }
    for (i, s) in shorts.iter().enumerate() {
        out.emit(n % nshards, &fen_load_event(t, s, "fuzz", None));
        if i % 7 == 0 || s.len() <= 1 {
            cli.push(json!({"kind": "fuzz", "input": s}));
        }
        n += 1;
        n_fuzz += 1;
    }
    out.finish();
    std::fs::write(format!("{}/cli_inputs.json", dir), serde_json::to_string(&cli).unwrap()).unwrap();
    json!({"spec": n_spec, "fuzz": n_fuzz, "cli_inputs": cli.len()})
}

// ---------------------------------------------------------------------------------------------
// evaluation
// ---------------------------------------------------------------------------------------------
fn flip_code(c: u32) -> u32 {
    if c == 0 {
        0
    } else if c <= 6 {
        c + 6
    } else {
        c - 6
    }
}

fn eval_event(t: &Tables, pcs: &[(u32, u32)], stm: u32, fam: &str, rng: &mut StdRng) -> Value {
    let b = board_from(t, pcs, stm, 0, 0);
    let e = get_evaluation(&b);
    // harness-side mirror: ranks flipped, colours swapped, side swapped (the specification re-derives it)
    let mpcs: Vec<(u32, u32)> = pcs.iter().map(|(s, c)| (8 * (7 - (s - 1) / 8) + (s - 1) % 8 + 1, flip_code(*c))).collect();
    let m = board_from(t, &mpcs, 1 - stm, 0, 0);
    let e_m = get_evaluation(&m);
    let sw = board_from(t, pcs, 1 - stm, 0, 0);
    let e_swap = get_evaluation(&sw);
    // the same placement with the other side to move and the key left as it was (this is how the search makes its null move)
    let mut sw2 = b.clone();
    sw2.to_move = sw.to_move;
    let e_swap_stalekey = get_evaluation(&sw2);
    let e_again = get_evaluation(&b);
    // variants differing only in non placement fields
    let mut vars = Vec::new();
    let mut v1 = b.clone();
    v1.white_king_side_castle = true;
    v1.black_queen_side_castle = true;
    vars.push(get_evaluation(&v1));
    let mut v2 = b.clone();
    v2.pawn_double_move = Some(point_of(rng.gen_range(17..=24)));
    vars.push(get_evaluation(&v2));
    let mut v3 = b.clone();
    v3.last_move = Some((point_of(rng.gen_range(1..=64)), point_of(rng.gen_range(1..=64))));
    v3.pawn_promotion = piece_from_code(rng.gen_range(2..=5));
    v3.order_heuristic = 12345;
    v3.zobrist_key = rng.gen();
    v3.white_king_location = point_of(rng.gen_range(1..=64));
    v3.black_king_location = point_of(rng.gen_range(1..=64));
    vars.push(get_evaluation(&v3));
    // "mate": the magnitude the search itself reserves for mate scores (hook verif_mate_score): the bound is relative to it
    json!({"ev": "eval", "fam": fam, "p": t.state(&b), "e": e, "mirror": t.state(&m), "e_m": e_m, "e_swap": e_swap, "e_swap_stalekey": e_swap_stalekey, "e_again": e_again, "e_var": vars,
           "mate": crate::engine::verif_mate_score()})
}

pub fn eval_events(t: &Tables, dir: &str, nshards: usize, seed: u64, randoms: u64) -> Value {
    let mut out = Shards::new(dir, "rules", nshards);
    let mut rng = StdRng::seed_from_u64(seed);
    let mut n = 0usize;
    let mut counts = [0u64; 3];
    // single piece basis with phase ballast (0, 12, 24): ballast = knights of both colours on fixed squares
    for code in 1..=12u32 {
        for s in 1..=64u32 {
            for ballast in [0usize, 12, 24] {
                let mut pcs = vec![(s, code)];
                // ballast knights (phase 1 each), alternate colours, on squares away from s
                let mut placed = 0;
                let mut q = 1u32;
                while placed < ballast && q <= 64 {
                    if q != s {
                        pcs.push((q, if placed % 2 == 0 { 2 } else { 8 }));
                        placed += 1;
                    }
                    q += 1;
                }
                for stm in 0..2 {
                    out.emit(n % nshards, &eval_event(t, &pcs, stm, "basis", &mut rng));
                    n += 1;
                    counts[0] += 1;
                }
            }
        }
    }
    // maximal material inside the property's precondition: K + 9Q + 2R + 2B + 2N for one side against a lone
    // king, and for both sides, on random squares
    for rep in 0..40u32 {
        let mut sqs: Vec<u32> = (1..=64).collect();
        for i in (1..64).rev() {
            let j = rng.gen_range(0..=i);
            sqs.swap(i, j);
        }
        let army = [6u32, 5, 5, 5, 5, 5, 5, 5, 5, 5, 4, 4, 3, 3, 2, 2];
        let mut pcs = vec![];
        let col = rep % 2;
        for (i, k) in army.iter().enumerate() {
            pcs.push((sqs[i], k + 6 * col));
        }
        if rep % 4 < 2 {
            pcs.push((sqs[16], 6 + 6 * (1 - col)));
        } else {
            for (i, k) in army.iter().enumerate() {
                pcs.push((sqs[16 + i], k + 6 * (1 - col)));
            }
        }
        for stm in 0..2 {
            out.emit(n % nshards, &eval_event(t, &pcs, stm, "max", &mut rng));
            n += 1;
            counts[1] += 1;
        }
    }
    for _ in 0..randoms {
        let mut sqs: Vec<u32> = (1..=64).collect();
        for i in (1..64).rev() {
            let j = rng.gen_range(0..=i);
            sqs.swap(i, j);
        }
        let np = rng.gen_range(0..=32usize);
        let mut pcs = vec![];
        for i in 0..np {
            pcs.push((sqs[i], rng.gen_range(1..=12u32)));
        }
        let stm = rng.gen_range(0..2);
        out.emit(n % nshards, &eval_event(t, &pcs, stm, "random", &mut rng));
        n += 1;
        counts[2] += 1;
    }
    // pairs with a pawn: every evaluation term that looks at a piece next to / behind / in front of a pawn (trapped pieces,
    // outposts, rooks behind pawns, pawn structure) lives here.  A pawn of either colour with any other man on each of the
    // eight neighbouring squares: exhaustive; a pawn with any other man anywhere: every `pair_stride`-th member
    let pair_stride: u64 = if randoms > 50000 { 1 } else { 12 };
    let mut pairs = 0u64;
    let mut pidx = 0u64;
    for pc in [1u32, 7] {
        for ps in 9..=56u32 {
            for oc in 1..=12u32 {
                for os in 1..=64u32 {
                    if os == ps || ((oc == 1 || oc == 7) && (os <= 8 || os >= 57)) {
                        continue;
                    }
                    let (df, dr) = ((((os - 1) % 8) as i32 - ((ps - 1) % 8) as i32).abs(), (((os - 1) / 8) as i32 - ((ps - 1) / 8) as i32).abs());
                    let adjacent = df <= 1 && dr <= 1;
                    pidx += 1;
                    if !adjacent && (pidx + seed) % pair_stride != 0 {
                        continue;
                    }
                    out.emit(n % nshards, &eval_event(t, &[(ps, pc), (os, oc)], (pidx % 2) as u32, "pair", &mut rng));
                    n += 1;
                    pairs += 1;
                }
            }
        }
    }
    // boards REACHED by the engine's own machinery (generator successors incl. promotions, captures, castling, en passant;
    // the text applier) against a fresh object of the same placement and side to move: whatever the object carries along
    // (caches, flags, history) must not matter
    let mut reached = 0u64;
    let starts: Vec<BoardState> = {
        let mut v = vec![BoardState::from_fen("rnbqkbnr/pppppppp/8/8/8/8/PPPPPPPP/RNBQKBNR w KQkq - 0 1").unwrap()];
        let mut fi = 0;
        while (v.len() as u64) < 1 + randoms / 40 && fi < 100000 {
            fi += 1;
            if let Some(b) = crate::rules::family_member(t, &mut rng, fi) {
                v.push(b);
            }
        }
        v
    };
    for b0 in &starts {
        let mut b = b0.clone();
        let start_fen = to_fen(b0, 0, 1);
        let mut route: Vec<Value> = Vec::new();
        for _ply in 0..rng.gen_range(2..=8) {
            let r = catch_unwind(AssertUnwindSafe(|| generate_moves(&b, MoveGenerationMode::AllMoves, &t.hasher)));
            let ms = match r {
                Ok(ms) if !ms.is_empty() => ms,
                _ => break,
            };
            // promotions and captures first (they are what changes the material a cache would summarise)
            let special: Vec<usize> = (0..ms.len()).filter(|&i| ms[i].pawn_promotion.is_some() || piece_count(&ms[i]) < piece_count(&b)).collect();
            let pick = if !special.is_empty() && rng.gen_bool(0.7) { special[rng.gen_range(0..special.len())] } else { rng.gen_range(0..ms.len()) };
            // every other step through the text applier instead of the generator's successor object
            let txt = printed_move(&ms[pick]);
            let by_text = rng.gen_bool(0.4);
            b = step_route(t, &b, &txt, by_text).unwrap_or_else(|| ms[pick].clone());
            route.push(json!([txt, by_text]));
            let st = t.state(&b);
            let mut ev = eval_event(t, &pcs_of(&st), st["stm"].as_u64().unwrap_or(0) as u32, "reached", &mut rng);
            if let Ok(e_reached) = catch_unwind(AssertUnwindSafe(|| get_evaluation(&b))) {
                ev["e_var"].as_array_mut().unwrap().push(json!(e_reached));
            }
            ev["route"] = json!({"fen": start_fen, "steps": route});
            out.emit(n % nshards, &ev);
            n += 1;
            reached += 1;
        }
    }
    out.finish();
    json!({"events": n, "basis": counts[0], "max": counts[1], "random": counts[2], "reached": reached, "pairs_with_a_pawn": pairs})
}

// one step of a route: by the text applier, or by the generator's successor object that prints as `txt`
fn step_route(t: &Tables, b: &BoardState, txt: &str, by_text: bool) -> Option<BoardState> {
    if by_text {
        let mut c = b.clone();
        catch_unwind(AssertUnwindSafe(|| {
            crate::uci::verif_make_move(&mut c, txt, &t.hasher);
            c
        })).ok()
    } else {
        catch_unwind(AssertUnwindSafe(|| generate_moves(b, MoveGenerationMode::AllMoves, &t.hasher))).ok()?.into_iter().find(|m| printed_move(m) == txt)
    }
}

fn piece_count(b: &BoardState) -> usize {
    let mut c = 0;
    for row in BOARD_START..BOARD_END {
        for col in BOARD_START..BOARD_END {
            if let Square::Full(_) = b.board[row][col] {
                c += 1;
            }
        }
    }
    c
}

// ---------------------------------------------------------------------------------------------
// replays: re-run the engine on the input of a logged event
// ---------------------------------------------------------------------------------------------
fn pcs_of(v: &Value) -> Vec<(u32, u32)> {
    let mut pcs = vec![];
    for rank in 1..=8u32 {
        let mut x = v["r"][(rank - 1) as usize].as_u64().unwrap();
        for f in 1..=8u32 {
            let c = (x % 13) as u32;
            x /= 13;
            if c != 0 {
                pcs.push((8 * (rank - 1) + f, c));
            }
        }
    }
    pcs
}

pub fn replay_events(t: &Tables, input: &str, output: &str) -> Value {
    use std::io::Write;
    let mut out = std::fs::File::create(output).unwrap();
    let mut rng = StdRng::seed_from_u64(1);
    let mut n = 0;
    for line in std::fs::read_to_string(input).unwrap().lines() {
        let ev: Value = serde_json::from_str(line).unwrap();
        let new = match ev["ev"].as_str().unwrap_or("") {
            "chk" => {
                let b = t.build(&ev["pos"]);
                chk_event(t, &b, ev["fam"].as_str().unwrap_or("replay"))
            }
            "eval" => {
                let pcs = pcs_of(&ev["p"]);
                let mut new = eval_event(t, &pcs, ev["p"]["stm"].as_u64().unwrap() as u32, "replay", &mut rng);
                // a board that was reached along a route is reached again the same way
                if let Some(steps) = ev["route"]["steps"].as_array() {
                    let mut b = BoardState::from_fen(ev["route"]["fen"].as_str().unwrap_or("")).ok();
                    for st in steps {
                        b = b.and_then(|x| step_route(t, &x, st[0].as_str().unwrap_or(""), st[1].as_bool().unwrap_or(false)));
                    }
                    if let Some(b) = b {
                        if let Ok(e_reached) = catch_unwind(AssertUnwindSafe(|| get_evaluation(&b))) {
                            new["e_var"].as_array_mut().unwrap().push(json!(e_reached));
                        }
                    }
                    new["route"] = ev["route"].clone();
                }
                new
            }
            "fen" => {
                let kind = ev["kind"].as_str().unwrap_or("fuzz").to_string();
                if kind == "spec" {
                    let b = t.build(&ev["spec"]);
                    fen_load_event(t, ev["input"].as_str().unwrap(), "spec", Some((&b, ev["half"].as_u64().unwrap(), ev["full"].as_u64().unwrap())))
                } else {
                    fen_load_event(t, ev["input"].as_str().unwrap(), "fuzz", None)
                }
            }
            _ => ev.clone(),
        };
        writeln!(out, "{}", new).unwrap();
        n += 1;
    }
    json!({"events": n})
}

// ---------------------------------------------------------------------------------------------
// time control: parse_go_command + calculate_time_slice through the verification wrapper
// ---------------------------------------------------------------------------------------------
pub fn slice_events(input: &str, output: &str) -> Value {
    use std::io::Write;
    // input: a list of go lines, or of objects {"line": .., "canon": ..} where canon is the same go without its unknown
    // tokens (the specification checks that both parse to the same values by ITS scan; the engine must then plan the same)
    let raw: Vec<Value> = serde_json::from_str(&std::fs::read_to_string(input).unwrap()).unwrap();
    let lines: Vec<String> = raw.iter().map(|v| v.as_str().map(|x| x.to_string()).unwrap_or_else(|| v["line"].as_str().unwrap_or("").to_string())).collect();
    let canons: Vec<Option<String>> = raw.iter().map(|v| v.get("canon").and_then(|c| c.as_str()).map(|x| x.to_string())).collect();
    let mut out = std::fs::File::create(output).unwrap();
    let mut n = 0;
    let clamp = |x: u128| -> i64 { if x > 2_000_000_000 { 2_000_000_000 } else { x as i64 } };
    let ci = |x: i128| -> i64 { x.clamp(-2_000_000_000, 2_000_000_000) as i64 };
    for (li, line) in lines.iter().enumerate() {
        // the engine sees the line through its own clean_input + split(' '), as in the command loop; the tokens handed to
        // the specification are split independently
        let cleaned = catch_unwind(AssertUnwindSafe(|| crate::utils::clean_input(&format!("{}\n", line)))).unwrap_or_default();
        let etoks: Vec<&str> = cleaned.split(' ').collect();
        let toks: Vec<&str> = line.split_whitespace().collect();
        let r = catch_unwind(AssertUnwindSafe(|| {
            let gt = crate::uci::verif_parse_go_command(&etoks);
            let sw = gt.calculate_time_slice(PieceColor::White);
            let sb = gt.calculate_time_slice(PieceColor::Black);
            // the same go with the OTHER side's clock / increment changed
            // (built by overwriting the parsed object, not by a struct literal: a field added to GameTime must not stop
            // this harness from compiling)
            let mut alt_w = crate::uci::verif_parse_go_command(&etoks);
            alt_w.btime = gt.btime / 2 + 777;
            alt_w.binc = gt.binc + 333;
            let mut alt_b = crate::uci::verif_parse_go_command(&etoks);
            alt_b.wtime = gt.wtime / 2 + 777;
            alt_b.winc = gt.winc + 333;
            (gt.wtime, gt.btime, gt.winc, gt.binc, gt.movestogo, sw, sb, alt_w.calculate_time_slice(PieceColor::White), alt_b.calculate_time_slice(PieceColor::Black))
        }));
        let ev = match r {
            Ok((wt, bt, wi, bi, mtg, sw, sb, aw, ab)) => json!({"ev": "slice", "line": line, "toks": toks,
                // exact decimal strings for values beyond 32 bits (checked with unbounded integers by Apalache)
                "exact": {"wtime": wt.to_string(), "btime": bt.to_string(), "winc": wi.to_string(), "binc": bi.to_string(),
                          "slice_w": sw.to_string(), "slice_b": sb.to_string(), "slice_w_alt": aw.to_string(), "slice_b_alt": ab.to_string()},
                "parsed": {"wtime": ci(wt), "btime": ci(bt), "winc": ci(wi), "binc": ci(bi), "movestogo": mtg.unwrap_or(0)},
                "slice_w": clamp(sw), "slice_b": clamp(sb), "slice_w_alt": clamp(aw), "slice_b_alt": clamp(ab)}),
            Err(_) => json!({"ev": "slice", "line": line, "toks": toks, "panic": true}),
        };
        let mut ev = ev;
        if let Some(canon) = &canons[li] {
            let ccleaned = catch_unwind(AssertUnwindSafe(|| crate::utils::clean_input(&format!("{}\n", canon)))).unwrap_or_default();
            let cetoks: Vec<&str> = ccleaned.split(' ').collect();
            let ctoks: Vec<&str> = canon.split_whitespace().collect();
            let rc = catch_unwind(AssertUnwindSafe(|| {
                let gt = crate::uci::verif_parse_go_command(&cetoks);
                (gt.wtime, gt.btime, gt.winc, gt.binc, gt.movestogo, gt.calculate_time_slice(PieceColor::White), gt.calculate_time_slice(PieceColor::Black))
            }));
            ev["canon_toks"] = json!(ctoks);
            match rc {
                Ok((wt, bt, wi, bi, mtg, sw, sb)) => {
                    ev["canon_parsed"] = json!({"wtime": ci(wt), "btime": ci(bt), "winc": ci(wi), "binc": ci(bi), "movestogo": mtg.unwrap_or(0)});
                    ev["canon_slice_w"] = json!(clamp(sw));
                    ev["canon_slice_b"] = json!(clamp(sb));
                }
                Err(_) => {
                    ev["canon_panic"] = json!(true);
                }
            }
        }
        writeln!(out, "{}", ev).unwrap();
        n += 1;
    }
    json!({"events": n})
}

// ---------------------------------------------------------------------------------------------
// direction spec -> code: members of TLC-enumerated families with the rules' expectations
// ---------------------------------------------------------------------------------------------
pub fn family_replay(t: &Tables, input: &str) -> Value {
    use std::collections::BTreeSet;
    let mut n = 0u64;
    let mut mismatches: Vec<Value> = Vec::new();
    let mut nontrivial = 0u64;
    let kind_of = |b: &BoardState| -> u32 {
        match b.pawn_promotion {
            Some(p) => (piece_code(Square::Full(p)) - 1) % 6 + 1,
            None => 0,
        }
    };
    for line in std::fs::read_to_string(input).unwrap().lines() {
        let m: Value = match serde_json::from_str(line) {
            Ok(v) => v,
            Err(_) => continue,
        };
        n += 1;
        let board = t.build(&m["pos"]);
        let set_of = |v: &Value| -> BTreeSet<(u32, u32, u32)> {
            v.as_array().unwrap().iter().map(|x| (x[0].as_u64().unwrap() as u32, x[1].as_u64().unwrap() as u32, x[2].as_u64().unwrap() as u32)).collect()
        };
        let want_all = set_of(&m["legal"]);
        let want_caps = set_of(&m["caps"]);
        for (mode, want, tag) in [(MoveGenerationMode::AllMoves, &want_all, "moveset"), (MoveGenerationMode::CapturesOnly, &want_caps, "caps")] {
            let r = catch_unwind(AssertUnwindSafe(|| generate_moves(&board, mode, &t.hasher)));
            match r {
                Ok(moves) => {
                    let got: BTreeSet<(u32, u32, u32)> = moves.iter().map(|s| {
                        let (f, to) = s.last_move.unwrap_or((Point(0, 0), Point(0, 0)));
                        (sq_of(f), sq_of(to), kind_of(s))
                    }).collect();
                    if &got != want || got.len() != moves.len() {
                        let extra: Vec<_> = got.difference(want).collect();
                        let missing: Vec<_> = want.difference(&got).collect();
                        mismatches.push(json!({"kind": tag, "pos": m["pos"], "extra": extra, "missing": missing, "dup": moves.len() - got.len()}));
                    }
                }
                Err(_) => mismatches.push(json!({"kind": "panic", "pos": m["pos"]})),
            }
        }
        // two-ply expectations: through the engine's own successor object for move m, the next generation
        if let Some(thens) = m["then"].as_array() {
            if !thens.is_empty() {
                if let Ok(moves) = catch_unwind(AssertUnwindSafe(|| generate_moves(&board, MoveGenerationMode::AllMoves, &t.hasher))) {
                    for th in thens {
                        let mv = (th["m"][0].as_u64().unwrap() as u32, th["m"][1].as_u64().unwrap() as u32, th["m"][2].as_u64().unwrap() as u32);
                        let succ = moves.iter().find(|s| {
                            let (f, to) = s.last_move.unwrap_or((Point(0, 0), Point(0, 0)));
                            (sq_of(f), sq_of(to), kind_of(s)) == mv
                        });
                        if let Some(sb) = succ {
                            // the successor object itself against the rules' successor (placement, side, rights, ep, king cache, key)
                            let st = t.state(sb);
                            let want_s = &th["succ"];
                            let mut kw = 0u32;
                            let mut kb = 0u32;
                            for sq in 1..=64u32 {
                                let p = point_of(sq);
                                let c = piece_code(sb.board[p.0][p.1]);
                                if c == 6 {
                                    kw = sq
                                }
                                if c == 12 {
                                    kb = sq
                                }
                            }
                            if st["r"] != want_s["r"] || st["stm"] != want_s["stm"] || st["cr"] != want_s["cr"] || st["ep"] != want_s["ep"]
                                || st["wk"] != json!(kw) || st["bk"] != json!(kb) {
                                mismatches.push(json!({"kind": "successor-after", "pos": m["pos"], "after": th["m"], "engine": st, "rules": want_s}));
                            }
                            if !st["res"].as_array().unwrap().is_empty() {
                                mismatches.push(json!({"kind": "residue-after", "pos": m["pos"], "after": th["m"], "res": st["res"]}));
                            }
                            // the printed text and its replay through the text applier
                            let txt = printed_move(sb);
                            if json!(txt) != th["text"] {
                                mismatches.push(json!({"kind": "text-printed", "pos": m["pos"], "after": th["m"], "engine": txt, "rules": th["text"]}));
                            }
                            let mut b2 = board.clone();
                            let spec_text = th["text"].as_str().unwrap_or("").to_string();
                            if catch_unwind(AssertUnwindSafe(|| crate::uci::verif_make_move(&mut b2, &spec_text, &t.hasher))).is_ok() {
                                let s2 = t.state(&b2);
                                if s2["r"] != want_s["r"] || s2["stm"] != want_s["stm"] || s2["cr"] != want_s["cr"] || s2["ep"] != want_s["ep"]
                                    || s2["wk"] != st["wk"] || s2["bk"] != st["bk"] {
                                    mismatches.push(json!({"kind": "text-after", "pos": m["pos"], "after": th["m"], "engine": s2, "rules": want_s}));
                                }
                                if !s2["res"].as_array().unwrap().is_empty() {
                                    mismatches.push(json!({"kind": "residue-after", "pos": m["pos"], "after": th["m"], "res": s2["res"]}));
                                }
                            } else {
                                mismatches.push(json!({"kind": "text-after", "pos": m["pos"], "after": th["m"], "panic": true}));
                            }
                            let want2 = set_of(&th["legal"]);
                            if let Ok(m2) = catch_unwind(AssertUnwindSafe(|| generate_moves(sb, MoveGenerationMode::AllMoves, &t.hasher))) {
                                let got2: BTreeSet<(u32, u32, u32)> = m2.iter().map(|s| {
                                    let (f, to) = s.last_move.unwrap_or((Point(0, 0), Point(0, 0)));
                                    (sq_of(f), sq_of(to), kind_of(s))
                                }).collect();
                                if got2 != want2 || got2.len() != m2.len() {
                                    let extra: Vec<_> = got2.difference(&want2).collect();
                                    let missing: Vec<_> = want2.difference(&got2).collect();
                                    mismatches.push(json!({"kind": "moveset-after", "pos": m["pos"], "after": th["m"], "extra": extra, "missing": missing}));
                                }
                            }
                        }
                    }
                }
            }
        }
        let chk = [is_check(&board, PieceColor::White), is_check(&board, PieceColor::Black)];
        if chk[0] != m["chk"][0].as_bool().unwrap() || chk[1] != m["chk"][1].as_bool().unwrap() {
            mismatches.push(json!({"kind": "check", "pos": m["pos"], "engine": chk, "spec": m["chk"]}));
        }
        if chk[0] || chk[1] || !want_caps.is_empty() || board.pawn_double_move.is_some() {
            nontrivial += 1;
        }
    }
    json!({"members": n, "nontrivial": nontrivial, "mismatches": mismatches})
}

// TLC-simulated games (move texts + the rules' position after every prefix) through the text applier
pub fn game_replay(t: &Tables, input: &str) -> Value {
    use crate::draw_table::DrawTable;
    let mut n = 0u64;
    let mut plies = 0u64;
    let mut mismatches: Vec<Value> = Vec::new();
    let mut specials = [0u64; 4]; // castle, ep, promo, double
    let same = |s: &Value, want: &Value| -> bool { s["r"] == want["r"] && s["stm"] == want["stm"] && s["cr"] == want["cr"] && s["ep"] == want["ep"] };
    for line in std::fs::read_to_string(input).unwrap().lines() {
        let g: Value = match serde_json::from_str(line) {
            Ok(v) => v,
            Err(_) => continue,
        };
        n += 1;
        let fen = g["fen"].as_str().unwrap();
        let texts: Vec<String> = g["texts"].as_array().unwrap().iter().map(|x| x.as_str().unwrap().to_string()).collect();
        let states = g["states"].as_array().unwrap();
        let cmd = format!("position fen {} moves {}", fen, texts.join(" "));
        // prefix by prefix through make_move
        let mut b = match BoardState::from_fen(fen) {
            Ok(b) => b,
            Err(_) => {
                mismatches.push(json!({"kind": "fen-rejected", "cmd": cmd}));
                continue;
            }
        };
        let mut failed = false;
        for (i, tx) in texts.iter().enumerate() {
            plies += 1;
            if tx.len() == 5 {
                specials[2] += 1;
            }
            let before = b.clone();
            let r = catch_unwind(AssertUnwindSafe(|| crate::uci::verif_make_move(&mut b, tx, &t.hasher)));
            if r.is_err() {
                mismatches.push(json!({"kind": "text-apply-panic", "cmd": cmd, "prefix": i + 1, "text": tx}));
                failed = true;
                break;
            }
            let s = t.state(&b);
            // king cache against the placement
            let mut wk = 0u32;
            let mut bk = 0u32;
            for sq in 1..=64u32 {
                let p = point_of(sq);
                let c = piece_code(b.board[p.0][p.1]);
                if c == 6 {
                    wk = sq
                }
                if c == 12 {
                    bk = sq
                }
            }
            if !same(&s, &states[i]) || s["wk"] != json!(wk) || s["bk"] != json!(bk) {
                mismatches.push(json!({"kind": "text-apply", "cmd": cmd, "prefix": i + 1, "text": tx, "engine": s, "rules": states[i]}));
                failed = true;
                break;
            }
            if !s["res"].as_array().unwrap().is_empty() {
                mismatches.push(json!({"kind": "residue", "cmd": cmd, "prefix": i + 1, "text": tx, "res": s["res"]}));
            }
            let (f, to) = (tx[0..2].to_string(), tx[2..4].to_string());
            let _ = (f, to, before);
        }
        if failed {
            continue;
        }
        // the whole command through play_out_position
        let toks: Vec<&str> = cmd.split(' ').collect();
        let mut table = DrawTable::new();
        let r = catch_unwind(AssertUnwindSafe(|| crate::uci::verif_play_out_position(&toks, &t.hasher, &mut table)));
        match r {
            Ok(fb) => {
                let s = t.state(&fb);
                if !texts.is_empty() && !same(&s, &states[texts.len() - 1]) {
                    mismatches.push(json!({"kind": "position-final", "cmd": cmd, "engine": s, "rules": states[texts.len() - 1]}));
                }
            }
            Err(_) => mismatches.push(json!({"kind": "position-panic", "cmd": cmd})),
        }
    }
    json!({"games": n, "plies": plies, "promotions": specials[2], "mismatches": mismatches})
}

// ---------------------------------------------------------------------------------------------
// pairs of states for the hash: single-component perturbations (keys must differ) and transpositions (keys must agree)
// ---------------------------------------------------------------------------------------------
pub fn key_pairs(t: &Tables, seeds: &[String], dir: &str, nshards: usize, seed: u64, playouts: usize, plies: usize) -> Value {
    let mut out = Shards::new(dir, "rules", nshards);
    let mut rng = StdRng::seed_from_u64(seed);
    let mut n = 0usize;
    let (mut n_pert, mut n_trans) = (0u64, 0u64);
    for i in 0..playouts {
        let mut board = match BoardState::from_fen(&seeds[i % seeds.len()]) {
            Ok(b) => b,
            Err(_) => continue,
        };
        for _ply in 0..plies {
            // (a) perturb one component of the position through the FEN loader
            let base = to_fen(&board, 0, 1);
            let fields: Vec<String> = base.split(' ').map(|x| x.to_string()).collect();
            let mut variants: Vec<String> = Vec::new();
            // side to move
            let mut f = fields.clone();
            f[1] = if f[1] == "w" { "b".to_string() } else { "w".to_string() };
            variants.push(f.join(" "));
            // one castling right toggled
            for r in ['K', 'Q', 'k', 'q'] {
                let mut f = fields.clone();
                let cur = if f[2] == "-" { String::new() } else { f[2].clone() };
                let newr: String = if cur.contains(r) { cur.replace(r, "") } else { "KQkq".chars().filter(|c| cur.contains(*c) || *c == r).collect() };
                f[2] = if newr.is_empty() { "-".to_string() } else { newr };
                variants.push(f.join(" "));
            }
            // en-passant field: set / cleared / other file
            let mut f = fields.clone();
            f[3] = if f[3] == "-" { if f[1] == "w" { "c6".to_string() } else { "c3".to_string() } } else { "-".to_string() };
            variants.push(f.join(" "));
            if fields[3] != "-" {
                let mut f = fields.clone();
                let file = fields[3].as_bytes()[0];
                let other = if file == b'a' { 'b' } else { (file - 1) as char };
                f[3] = format!("{}{}", other, &fields[3][1..]);
                variants.push(f.join(" "));
            }
            // one square changed (piece removed / replaced / added), on a random square
            for _ in 0..3 {
                let s = rng.gen_range(1..=64u32);
                let p = point_of(s);
                let mut b2 = board.clone();
                let cur = piece_code(b2.board[p.0][p.1]);
                let mut newc = rng.gen_range(0..=12u32);
                while newc == cur || newc == 6 || newc == 12 || cur == 6 || cur == 12 {
                    if cur == 6 || cur == 12 {
                        break;
                    }
                    newc = rng.gen_range(0..=12u32);
                }
                if cur == 6 || cur == 12 {
                    continue;
                }
                b2.board[p.0][p.1] = match piece_from_code(newc) {
                    Some(pc) => Square::Full(pc),
                    None => Square::Empty,
                };
                variants.push(to_fen(&b2, 0, 1));
            }
            let a = BoardState::from_fen(&base).ok();
            for v in variants {
                if let (Some(a), Ok(b)) = (a.as_ref(), BoardState::from_fen(&v)) {
                    out.emit(n % nshards, &json!({"ev": "keypair", "kind": "perturb", "a": t.state(a), "b": t.state(&b), "fa": base, "fb": v}));
                    n += 1;
                    n_pert += 1;
                }
            }
            // (b) transpositions: m1 m2 m3 m4 against m3 m2 m1 m4 style reorderings found by key-free search:
            // walk two plies ahead for each side in both orders when the same texts stay legal
            let ms = generate_moves(&board, MoveGenerationMode::AllMoves, &t.hasher);
            if ms.len() >= 2 {
                for _try in 0..4 {
                    let i1 = rng.gen_range(0..ms.len());
                    let i3 = rng.gen_range(0..ms.len());
                    if i1 == i3 {
                        continue;
                    }
                    let (t1, t3) = (printed_move(&ms[i1]), printed_move(&ms[i3]));
                    let r1 = generate_moves(&ms[i1], MoveGenerationMode::AllMoves, &t.hasher);
                    if r1.is_empty() {
                        continue;
                    }
                    let reply = &r1[rng.gen_range(0..r1.len())];
                    let t2 = printed_move(reply);
                    // order A: t1 t2 t3 ; order B: t3 t2 t1 (same reply in between)
                    let walk = |order: [&String; 3]| -> Option<BoardState> {
                        let mut b = board.clone();
                        for tx in order {
                            let nx = generate_moves(&b, MoveGenerationMode::AllMoves, &t.hasher);
                            b = nx.into_iter().find(|m| &printed_move(m) == tx)?;
                        }
                        Some(b)
                    };
                    if let (Some(a), Some(b)) = (walk([&t1, &t2, &t3]), walk([&t3, &t2, &t1])) {
                        out.emit(n % nshards, &json!({"ev": "keypair", "kind": "transpose", "a": t.state(&a), "b": t.state(&b),
                                                      "fa": format!("{} via {} {} {}", base, t1, t2, t3), "fb": format!("{} via {} {} {}", base, t3, t2, t1)}));
                        n += 1;
                        n_trans += 1;
                    }
                }
            }
            if ms.is_empty() {
                break;
            }
            board = ms[rng.gen_range(0..ms.len())].clone();
        }
    }
    out.finish();
    json!({"perturbations": n_pert, "transposition_candidates": n_trans})
}
