// Generates the module list that pulls the repository's sources into this crate.
// Walleye is a binary-only crate, so its modules are included by absolute #[path].
use std::{env, fs, path::PathBuf};
fn main() {
    let repo = env::var("WALLEYE_REPO").unwrap_or_else(|_| "/repo".to_string());
    println!("cargo:rerun-if-env-changed=WALLEYE_REPO");
    println!("cargo:rerun-if-changed=build.rs");
    let mods = [
        "board", "draw_table", "engine", "evaluation", "move_generation", "search",
        "time_control", "uci", "utils", "verif_hooks", "zobrist",
    ];
    let mut out = String::new();
    for m in mods {
        let p = format!("{}/src/{}.rs", repo, m);
        println!("cargo:rerun-if-changed={}", p);
        out += &format!("#[path = \"{}\"]\npub mod {};\n", p, m);
    }
    let dest = PathBuf::from(env::var("OUT_DIR").unwrap()).join("repo_mods.rs");
    fs::write(dest, out).unwrap();
}
