#!/usr/bin/env python3
"""Developer-side tool for seeded defects (not part of any registered check).

  seeded.py verify <outdir> <n> <name>   confirm in a scratch worktree that patch<n> compiles, passes the suite and makes
                                         demo<n> fail while clean HEAD passes it; then store it as /verif/seeded/<name>/
  seeded.py benign <outdir> <name>       confirm that benign.diff compiles, passes the suite and the agent's demos; store it as
                                         /verif/seeded/<name>/ with "benign": true (every check must stay silent on it)
  seeded.py run <name> <check-id>...     run checks against a scratch worktree with the patch applied (WALLEYE_REPO),
                                         record which ones report a VIOLATION in meta.json
"""
import json
import os
import re
import shutil
import subprocess
import sys
import time

VERIF = os.path.dirname(os.path.dirname(os.path.abspath(__file__)))
SCR = os.environ.get("SEEDED_SCR", "/tmp/mv")
TARGET = os.path.join(SCR, "target")


def sh(cmd, cwd=None, env=None, timeout=3600):
    e = dict(os.environ)
    e["CARGO_NET_OFFLINE"] = "true"
    if env:
        e.update(env)
    p = subprocess.run(cmd, shell=True, cwd=cwd, env=e, stdout=subprocess.PIPE, stderr=subprocess.STDOUT, text=True, timeout=timeout)
    return p.returncode, p.stdout


def worktree(tag, patch=None):
    d = os.path.join(SCR, tag)
    sh("git -C /repo worktree remove --force %s" % d)
    shutil.rmtree(d, ignore_errors=True)
    os.makedirs(SCR, exist_ok=True)
    rc, out = sh("git -C /repo worktree add -q --detach %s HEAD" % d)
    assert rc == 0, out
    shutil.copy("/repo/Cargo.lock", d)
    if patch:
        rc, out = sh("git apply %s" % patch, cwd=d)
        assert rc == 0, "patch does not apply: " + out
    return d


def drop(tag):
    d = os.path.join(SCR, tag)
    sh("git -C /repo worktree remove --force %s" % d)
    shutil.rmtree(d, ignore_errors=True)


def suite(d, guard=False):
    env = {"CARGO_TARGET_DIR": TARGET + ("-on" if guard else "")}
    if guard:
        env["RUSTFLAGS"] = "--cfg walleye_verif"
    rc, out = sh("cargo test --offline 2>&1", cwd=d, env=env)
    m = re.search(r"test result: (\w+)\. (\d+) passed; (\d+) failed", out)
    return (m.group(1), int(m.group(2)), int(m.group(3))) if m else ("build-failed", 0, 0), out


def run_demo(d, outdir, n):
    """returns True when the demo passes (property holds)."""
    demo_diff = os.path.join(outdir, "demo%d.diff" % n)
    if os.path.exists(demo_diff):
        # remember the state under test (the patch, if any), so that it can be put back after the demo is taken out again
        keep = os.path.join(SCR, "under-test.diff")
        sh("git diff > %s" % keep, cwd=d)
        rc, out = sh("git apply %s" % demo_diff, cwd=d)
        if rc != 0:
            # a demo that appends a test module to engine.rs, written before the hook function was added at its end: set the
            # hook function aside, apply, put it back behind
            ep = os.path.join(d, "src", "engine.rs")
            txt = open(ep).read()
            i = txt.rfind("\n// verification hook: the magnitude")
            if i >= 0:
                open(ep, "w").write(txt[:i])
                rc, out = sh("git apply %s" % demo_diff, cwd=d)
                open(ep, "a").write(txt[i:])
        if rc != 0:
            return None, "demo diff does not apply: " + out
        guard = "walleye_verif" in open(demo_diff).read()
        (res, passed, failed), out = suite(d, guard)
        sh("git reset -q && git checkout -- . && git clean -fdq -e Cargo.lock", cwd=d)
        if os.path.getsize(keep) > 0:
            sh("git apply %s" % keep, cwd=d)
        return (res == "ok" and failed == 0), "suite+demo: %s %d passed %d failed" % (res, passed, failed)
    for ext, runner in ((".sh", "bash"), (".py", "python3")):
        f = os.path.join(outdir, "demo%d%s" % (n, ext))
        if os.path.exists(f):
            rc, out = sh("cargo build --offline 2>&1", cwd=d, env={"CARGO_TARGET_DIR": TARGET})
            if rc != 0:
                return None, "build failed"
            binp = os.path.join(TARGET, "debug", "walleye")
            rc, out = sh("%s %s %s" % (runner, f, binp), cwd=d, timeout=900)
            return rc == 0, "demo rc=%d: %s" % (rc, out[-300:].replace("\n", " | "))
    return None, "no demo found"


def verify(outdir, n, name):
    patch = os.path.join(outdir, "patch%d.diff" % n)
    meta_in = json.load(open(os.path.join(outdir, "meta%d.json" % n)))
    log = []
    d = worktree("clean")
    ok_clean, msg = run_demo(d, outdir, n)
    log.append("clean HEAD: demo passes=%s (%s)" % (ok_clean, msg))
    drop("clean")
    d = worktree("mut", patch)
    (res, passed, failed), _ = suite(d)
    log.append("HEAD+patch: suite %s %d passed %d failed" % (res, passed, failed))
    ok_mut, msg = run_demo(d, outdir, n)
    log.append("HEAD+patch: demo passes=%s (%s)" % (ok_mut, msg))
    drop("mut")
    confirmed = ok_clean is True and ok_mut is False and res == "ok" and passed == 107 and failed == 0
    print("\n".join(log))
    print("CONFIRMED" if confirmed else "NOT CONFIRMED")
    if confirmed:
        dst = os.path.join(VERIF, "seeded", name)
        os.makedirs(dst, exist_ok=True)
        shutil.copy(patch, os.path.join(dst, "patch.diff"))
        for f in os.listdir(outdir):
            if f.startswith("demo%d." % n):
                shutil.copy(os.path.join(outdir, f), os.path.join(dst, f.replace("demo%d" % n, "demo")))
        meta = {"property": meta_in.get("property"), "summary": meta_in.get("summary"), "needs": meta_in.get("needs"),
                "how_to_run_demo": meta_in.get("how_to_run_demo"), "files_touched": meta_in.get("files_touched"),
                "confirmed": log, "repo_head": sh("git -C /repo rev-parse --short HEAD")[1].strip(), "detected_by": {}}
        json.dump(meta, open(os.path.join(dst, "meta.json"), "w"), indent=1)
    return 0 if confirmed else 1


def benign(outdir, name):
    """a behaviour-changing but property-preserving change: must compile, pass the suite, and keep the agent's own demos passing"""
    patch = os.path.join(outdir, "benign.diff")
    meta_in = json.load(open(os.path.join(outdir, "benign.json")))
    log = []
    d = worktree("mut", patch)
    (res, passed, failed), _ = suite(d)
    log.append("HEAD+benign: suite %s %d passed %d failed" % (res, passed, failed))
    ok = res == "ok" and passed == 107 and failed == 0
    for n in (1, 2):
        if os.path.exists(os.path.join(outdir, "patch%d.diff" % n)):
            okd, msg = run_demo(d, outdir, n)
            log.append("HEAD+benign: demo%d passes=%s (%s)" % (n, okd, msg))
            ok = ok and okd is True
    drop("mut")
    print("\n".join(log))
    print("CONFIRMED" if ok else "NOT CONFIRMED")
    if ok:
        dst = os.path.join(VERIF, "seeded", name)
        os.makedirs(dst, exist_ok=True)
        shutil.copy(patch, os.path.join(dst, "patch.diff"))
        meta = {"property": meta_in.get("property"), "benign": True, "summary": meta_in.get("summary"),
                "why_property_holds": meta_in.get("why_property_holds"), "files_touched": meta_in.get("files_touched"),
                "confirmed": log, "repo_head": sh("git -C /repo rev-parse --short HEAD")[1].strip(), "detected_by": {}}
        json.dump(meta, open(os.path.join(dst, "meta.json"), "w"), indent=1)
    return 0 if ok else 1


def run(name, checks):
    dst = os.path.join(VERIF, "seeded", name)
    meta = json.load(open(os.path.join(dst, "meta.json")))
    tag = "run-" + name
    d = worktree(tag, os.path.join(dst, "patch.diff"))
    for c in checks:
        t0 = time.time()
        rc, out = sh("./check %s --tier quick" % c, cwd=VERIF, env={"WALLEYE_REPO": d, "VERIF_NO_EVIDENCE": "1"}, timeout=3600)
        viol = [l for l in out.splitlines() if l.startswith("VIOLATION")]
        detail = [l for l in out.splitlines() if l.startswith("[check]   ")][:3]
        meta["detected_by"][c] = {"rc": rc, "violations": len(viol), "wall_s": round(time.time() - t0, 1), "first": detail,
                                  "cmd": "WALLEYE_REPO=<worktree with patch> ./check %s --tier quick" % c}
        print(name, c, "rc=%d" % rc, "violations=%d" % len(viol), "%.0fs" % (time.time() - t0), detail[:1])
        if rc == 2:
            print(out[-1500:])
    json.dump(meta, open(os.path.join(dst, "meta.json"), "w"), indent=1)
    drop(tag)
    tgt = os.path.join(VERIF, "build")
    import hashlib
    h = hashlib.sha1(os.path.abspath(d).encode()).hexdigest()[:8]
    for p in os.listdir(tgt):
        if p.endswith(h):
            shutil.rmtree(os.path.join(tgt, p), ignore_errors=True)


if __name__ == "__main__":
    if sys.argv[1] == "verify":
        sys.exit(verify(sys.argv[2], int(sys.argv[3]), sys.argv[4]))
    if sys.argv[1] == "benign":
        sys.exit(benign(sys.argv[2], sys.argv[3]))
    if sys.argv[1] == "run":
        run(sys.argv[2], sys.argv[3:])
