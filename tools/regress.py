#!/usr/bin/env python3
"""Developer helper: re-run, on the current checks and the current /repo head, every stored seeded defect against the check of its own
property (and, where that one does not see it, the check that did) and every benign change against the checks recorded for it.
usage: regress.py <workers> [name-prefix ...]   (one scratch directory per worker)"""
import glob, json, os, re, subprocess, sys
from concurrent.futures import ThreadPoolExecutor
V = os.path.dirname(os.path.dirname(os.path.abspath(__file__)))
workers = int(sys.argv[1])
prefixes = sys.argv[2:]
jobs = []
for d in sorted(glob.glob(V + "/seeded/*")):
    name = os.path.basename(d)
    if prefixes and not any(re.fullmatch(p, name) for p in prefixes):
        continue
    m = json.load(open(d + "/meta.json"))
    det = m.get("detected_by", {})
    if m.get("neutralised"):
        continue
    if m.get("benign"):
        # (every related check was run against the benign changes when they were stored; the regression repeats the
        # property's own check and any check that raised an alarm then)
        checks = [m["property"]] + [c for c, v in det.items() if (v["violations"] > 0 or v["rc"] != 0) and c != m["property"]]
    else:
        checks = [m["property"]] + [c for c, v in det.items() if v["violations"] > 0 and c != m["property"]][:1]
    jobs.append((name, checks))
def work(i):
    for k, (name, checks) in enumerate(jobs):
        if k % workers != i:
            continue
        env = dict(os.environ, SEEDED_SCR="/tmp/mvr%d" % i)
        p = subprocess.run(["python3", "tools/seeded.py", "run", name] + checks, cwd=V, env=env, stdout=subprocess.PIPE, stderr=subprocess.STDOUT, text=True)
        for l in p.stdout.splitlines():
            if l.startswith(name + " "):
                print(l[:220], flush=True)
with ThreadPoolExecutor(max_workers=workers) as ex:
    list(ex.map(work, range(workers)))
