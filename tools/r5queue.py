#!/usr/bin/env python3
"""Developer-side queue for a round of sub-agent results: verify, store, run checks (sequential: one scratch tree)."""
import glob, json, os, subprocess, sys
V = os.path.dirname(os.path.dirname(os.path.abspath(__file__)))
BYFILE = {"src/board.rs": ["C01", "C02", "C04", "C05", "C06", "C13", "C15"], "src/move_generation.rs": ["C01", "C02", "C04", "C05", "C06", "C13", "C03", "C12"],
          "src/engine.rs": ["C07", "C10", "C11", "C12", "C18", "C16", "C03", "C08"], "src/search.rs": ["C07", "C12", "C18", "C16"],
          "src/uci.rs": ["C03", "C04", "C08", "C09", "C10", "C16", "C17", "C18"], "src/evaluation.rs": ["C14", "C12", "C16", "C11"],
          "src/time_control.rs": ["C09", "C08", "C03"], "src/utils.rs": ["C17", "C03", "C09", "C07"], "src/draw_table.rs": ["C10", "C12", "C07"],
          "src/zobrist.rs": ["C05", "C10", "C04"], "src/main.rs": ["C15"]}
def sh(c):
    print("+", c, flush=True)
    return subprocess.run(c, shell=True, cwd=V).returncode
root = sys.argv[1]
for pid in sys.argv[2:]:
    out = "%s/%s-out" % (root, pid)
    nxt = max([int(d.rsplit("-", 1)[1]) for d in glob.glob("%s/seeded/%s-*" % (V, pid))] + [0])
    for n in (1, 2):
        if not os.path.exists("%s/patch%d.diff" % (out, n)):
            continue
        name = "%s-%d" % (pid, nxt + n)
        if sh("python3 tools/seeded.py verify %s %d %s | tail -4" % (out, n, name)) == 0 and os.path.exists("%s/seeded/%s" % (V, name)):
            sh("python3 tools/seeded.py run %s %s" % (name, pid))
    if os.path.exists(out + "/benign.diff"):
        name = "B-%s" % pid
        k = 2
        while os.path.exists("%s/seeded/%s" % (V, name)):
            name = "B%d-%s" % (k, pid)
            k += 1
        sh("python3 tools/seeded.py benign %s %s | tail -4" % (out, name))
        if os.path.exists("%s/seeded/%s" % (V, name)):
            files = json.load(open("%s/seeded/%s/meta.json" % (V, name))).get("files_touched") or []
            checks = [pid]
            for f in files:
                for c in BYFILE.get(f, []):
                    if c not in checks:
                        checks.append(c)
            limit = int(os.environ.get("BENIGN_CHECKS", "99"))
            sh("python3 tools/seeded.py run %s %s" % (name, " ".join(checks[:limit])))
