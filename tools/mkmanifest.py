#!/usr/bin/env python3
"""Regenerates /verif/MANIFEST.json from the table below (single source for the registered checks)."""
import json
import os

VERIF = os.path.dirname(os.path.dirname(os.path.abspath(__file__)))
props = [json.loads(l) for l in open(os.path.join(VERIF, "properties.jsonl"))]

MC = "model_checking"
CHECKS = {
    "C01": (MC, "Every generate_moves call on engine-driven histories is an event judged by TLC against Chess!Legal (independent rules oracle whose perft totals are self-checked): descriptor sets equal both ways, no duplicates. ChessGame.tla (the generator written as the code's own steps) is model-checked exhaustively from small-material seeds (GenIsLegal).",
            "Bounded-exhaustive model + seeded sampling of real positions; not a proof over all positions. Trusts TLC and the published perft numbers.",
            "TLA+ rules oracle (Chess.tla) + TLC trace validation of recorded generator calls + TLC model check of ChessGame.tla", "5 C01"),
    "C02": (MC, "Every successor object of every recorded generator call is compared field by field (placement, side, rights, ep target, king cache) with Chess!Apply, its descriptor with the legal move and the engine's own printed bestmove text with Chess!MoveText, along chains through the engine's own successor objects; ChessGame.tla invariants SuccIsApply/CacheOk model-checked.",
            "Sampling of histories (seeded); model bounded to small-material seeds and 2-3 plies.",
            "TLC trace validation against Chess!Apply / MoveText + TLC model check of ChessGame.tla", "5 C02"),
    "C04": (MC, "Every generated move is printed by the engine's own bestmove printer, replayed through uci::make_move and judged by TLC against Chess!Apply and against the generator's successor (key included); whole games go through play_out_position and are compared at every prefix; ChessGame.tla invariant TextIsGen (text applier = generator) model-checked.",
            "Sampling of games; model bounded.", "TLC trace validation of the text applier against Chess.tla + TLC model check (TextApply = GenSucc)", "5 C04"),
    "C05": (MC, "The incrementally maintained key is compared with a from-scratch recomputation (through the public getters) for every state produced by the generator (both modes), the text applier, play_out_position and the FEN loader; the difference is resolved to Zobrist features and TLC requires the empty residue; ChessGame.tla models the key as the set of XOR-ed features and TLC checks key = Features(position) on every reachable object; the 781 constants are audited distinct and non-zero.",
            "64-bit XOR abstracted as symmetric difference (justified by the audit); sampling of histories.",
            "feature-set abstraction of Zobrist hashing in TLA+ (KeyIsFeatures) + TLC trace validation of residues", "5 C05"),
    "C06": (MC, "is_check for both colours on exhaustive geometric families (king x attacker kind x square, one blocker between, both kings on every pair) and random placements, each an event judged by TLC against Chess!InCheck; thorough enumerates the families completely.",
            "Families are enumerated by the harness; Chess!Attacked is the trusted definition (perft self-check exercises it).",
            "TLC trace validation of is_check against Chess!InCheck over enumerated families", "5 C06"),
    "C13": (MC, "Capture-only generation along depth-first capture chains (as quiescence follows them) through the engine's own successor objects: per event descriptor set = Chess!LegalCaptures, successors = Chess!Apply, chain consistency; ChessGame.tla invariant CapsIsLegal model-checked.",
            "Sampling of chains; model bounded.", "TLC trace validation of CapturesOnly generation + TLC model check (CapsIsLegal)", "5 C13"),
    "C14": (MC, "get_evaluation on an exhaustive single-piece basis with phase ballast, maximal material and random placements; TLC checks the harness's mirror against Chess!Mirror and the relational contract (mirror-equal, side-negated, insensitive to non-placement fields, bounded).",
            "The specification supplies Mirror/SwapSide and the contract, not the tables (thin use of the spec, stated in DESIGN.md).",
            "TLC trace validation of the evaluation's relational contract using Chess!Mirror", "5 C14"),
    "C15": (MC, "Spec direction: positions rendered as FEN with boundary counters, TLC checks the string equals Chess!ToFen and the loaded state equals the position; totality: mutated and random strings must give Ok or Err (panics caught as data); the real binary's command line must exit 0 on all of them.",
            "'All strings' is sampled.", "TLC trace validation of from_fen against Chess!ToFen/Decode + mutation fuzzing judged by the trace spec", "5 C15"),
    "C07": (MC, "Fault enumeration under a substitutable clock, judged by the specification: for each scenario one run of the real get_best_move per clock-expiry index k = 0..K (every k when K <= cap); TLC (TraceSearch.tla) checks per run that infos and sends are prefixes of the reference run or exactly the fallback, nothing is accepted after the first expired query, the repetition record is restored, no panic, sends are legal root moves with the right board. Search.tla (the engine's PVS/quiescence/root loop transcribed, clock expiring at query k) is model-checked on generated trees x every k; the variant without the root's clock re-check fails (InvPrefix).",
            "Expiry points are enumerated at alpha_beta_search/root granularity (every out_of_time call site); positions are sampled.",
            "TLC model check of Search.tla over (tree x expiry index) + TLC trace validation of real runs for every expiry index", "5 C07"),
    "C10": (MC, "Record: games with forced repetitions through play_out_position and through the real command loop (instrumented binary, several position commands per session); TLC recomputes the multiset of Chess!Identity over the history and compares. Search: histories built so that the mover can step into a position seen twice; TLC requires the last score of each completed depth >= 0 and equality with Search!Ref (count >= 2 rule) on the recorded tree. MC_Search invariant RepDraw; the variant with the pinned commit's `== 2` test fails.",
            "Histories are sampled; repetition counts above 255 are out of reach.", "TLC trace validation (Identity multiset; Ref with repetition rule) + TLC model check of Search.tla (RepDraw)", "5 C10"),
    "C11": (MC, "Real searches (virtual clock, depth 4-5) on generated mate-in-one / avoidable-mate / random endgame positions; TLC re-derives on Chess.tla the mating moves, the safe moves, MateWithin(root, N) for every positive `score mate N` line and MatedWithin for the final line of completed depths. MC_Search invariant MateInOne on abstract trees.",
            "Mate claims are re-derived up to N = 2 (quick) / 3 (thorough); positions are small endgames (sampling).", "TLC trace validation of mate claims against Chess!MateWithin + TLC model check of Search.tla", "5 C11"),
    "C12": (MC, "The harness records the full game tree (engine's own generator and evaluator) to depth 3 and runs the real search; TLC evaluates Search!Ref - the property's own definition of minimax with check extension, quiescence, mate and repetition leaf rules - on the recorded tree and requires for D = 1, 2, 3 the last reported score and the value of the selected move to equal it, with and without history. MC_Search invariant Exact: AB = Ref on all generated trees.",
            "Trees are capped at 60000 nodes: rich middlegames are covered at depth 1-2 or skipped (counted in the evidence).", "reference-value re-derivation in TLA+ (Search!Ref) on recorded trees + TLC model check AB = Ref", "5 C12"),
    "C18": (MC, "Every info line of reference runs to depth 4 and of every enumerated expiry point is tokenised strictly and judged by TraceSearch.tla (shape, depth, mate value, bounds, strict increase inside a depth, first pv move legal); MC_Search invariant ScoresOk over trees x expiry indices; info lines of timed runs of the real binary are judged by TraceUci.tla.",
            "PV moves are (from,to) pairs in the engine, so promotion letters are absent from the pv: legality is judged on from/to.", "TLC trace validation of info lines + TLC model check (ScoresOk)", "5 C18"),
    "C03": (MC, "Walleye.tla (I/O thread, polling loop, search thread boundary, channel, deadline countdown) is model-checked over all interleavings for every command sequence up to the bound: exactly one answer per go, the board held by the polling loop is a root move of the position the go was given in (AnswerFitsPosition, ChannelFresh), liveness go ~> bestmove; the variant with one channel per session fails. Recorded sessions of the real binary (every command sequence of the model's alphabet up to length 3, runs of consecutive go, tiny slices) are validated by TraceUci.tla, which tracks the position with Chess!Apply and requires exactly one well-formed legal bestmove per go.",
            "Real thread schedules are sampled (tiny slices, concurrency), exhaustive only in the model.", "TLC model check of Walleye.tla (all interleavings) + TLC trace validation of black-box UCI sessions against Chess.tla", "5 C03"),
    "C08": (MC, "Liveness go ~> bestmove and termination model-checked in Walleye.tla with fairness (variants: no answer when no moves, fallback only before the loop, stale game-over flag - all fail); sessions of the real binary on finished and live positions x clocks: TraceUci.tla requires the (null) move within slice + 250 ms, readyok afterwards, and a further position/go served; two go in a row after mate-in-one positions.",
            "The upper time bound is machine dependent: a late answer is reported only if reproduced 3/3 in isolation.", "TLC liveness check of Walleye.tla + TLC trace validation of timed black-box sessions", "5 C08"),
    "C09": (MC, "TimeControl.tla states the slice contract in integers (only the mover's clock and increment, never above the remaining clock, <= round(0.8*(clock-100)/mtg), zero without usable clock and increment); TLC re-parses the go tokens (ParseGo) and checks the contract and the independence from the other side's values on an edge grid + random go lines run through the engine's parse_go_command / calculate_time_slice; the real binary's go->bestmove delay is validated against [plan, plan+250 ms] by TraceUci.tla; Walleye.tla: bestmove never before the deadline.",
            "Values beyond 2*10^8 ms are outside TLC's 32-bit integers (not covered).", "TLA+ integer contract (TimeControl!SliceOK) checked by TLC on recorded slice events + trace validation of timed sessions", "5 C09"),
    "C16": (MC, "Each probe request runs in a fresh process, twice in a row, and after prefixes (other games with searches, the same game move by move, ucinewgame/setoption/ignored lines/finished games, long repetition histories); TraceUci.tla keeps memo[request] and requires the identical bestmove under a zero allowance and prefix-related (depth, nodes, score, first pv move) sequences under a timed one. Walleye.tla: Position makes board and record functions of the command (RecordFresh).",
            "Sessions are sampled; timed probes compare only the common prefix (machine speed independent).", "TLC trace validation of black-box sessions with a memo of replies per request + structural model invariant", "5 C16"),
    "C17": (MC, "Walleye.tla: ignored lines stutter, Quit/Eof ~> dead (the variant reading end of input as empty lines fails); sessions of the real binary with a garbage alphabet interleaved with commands: every isready answered, the probe after garbage equals the garbage-free reply (memo), unknown tokens inside go, quit ends the process within 1 s, closing standard input after EVERY prefix of sessions containing blank lines ends it within 2 s.",
            "Garbage is a finite alphabet (sampled); truncated known commands such as a bare `position` are outside the property.", "TLC liveness check of Walleye.tla + TLC trace validation of black-box sessions incl. end of input at every prefix", "5 C17"),
}
claimed = sorted(CHECKS)
m = {
    "version": 1,
    "setup_cmd": "./check setup",
    "hooks": {"guard": "walleye_verif",
              "enable": "rustc cfg flag: RUSTFLAGS='--cfg walleye_verif' (harness/.cargo/config.toml sets it; the harness includes /repo/src/*.rs by #[path] so every check recompiles the working tree; lib/vcommon.py build_binary(guard_on=True) builds the instrumented binary)",
              "baseline_off_cmd": "cd /repo && cargo test --workspace --no-fail-fast --offline",
              "source_commits": ["ab59e29", "de8f984"], "add_only": True},
    "engines": [{"name": "tlc", "path": "/usr/local/bin/tlc", "serves_properties": claimed,
                 "kind_free_text": "TLC 1.8.0: exhaustive model runs of spec/*.tla and trace validation of ndjson traces recorded from the real code"},
                {"name": "apalache", "path": "/opt/veriftools/apalache/bin/apalache-mc", "serves_properties": ["C03", "C09"],
                 "kind_free_text": "Apalache 0.58.0 on the same TLA+ modules: inductive invariant of Walleye.tla with symbolic parameters (WalleyeInd.tla), slice contract on literals beyond 32 bits (generated BigSlices module extending SliceContract.tla)"}],
    "checks": [],
    "notes": "All checks are decided by the TLA+ specification in /verif/spec (see DESIGN.md). ./check selftest runs the deeper spec self-checks (perft depth 4, bug-variant configurations).",
    "not_applicable": [],
}
for pid in claimed:
    cat, text, note, tech, ref = CHECKS[pid]
    m["checks"].append({"property_id": pid, "quick_cmd": "./check %s --tier quick" % pid, "thorough_cmd": "./check %s --tier thorough" % pid,
                        "evidence_file": "/verif/evidence/%s.json" % pid, "replay_cmd_template": "./check %s --replay {path}" % pid,
                        "engine": "tlc", "level_claimed": {"category": cat, "text": text, "design_ref": ref}, "level_note": note, "technique": tech})
for p in props:
    if p["id"] not in CHECKS:
        m["not_applicable"].append({"property_id": p["id"], "reason": "check under construction in this build phase (designed in DESIGN.md section 5); not yet registered"})
json.dump(m, open(os.path.join(VERIF, "MANIFEST.json"), "w"), indent=1)
print("claimed", claimed)
