#!/usr/bin/env python3
"""Regenerates /verif/MANIFEST.json from the table below (single source for the registered checks)."""
import json
import os

VERIF = os.path.dirname(os.path.dirname(os.path.abspath(__file__)))
props = [json.loads(l) for l in open(os.path.join(VERIF, "properties.jsonl"))]

MC = "model_checking"
CHECKS = {
    "C01": (MC, "Every generate_moves call on engine-driven histories is an event judged by TLC against Chess!Legal (independent rules oracle whose perft totals are self-checked): descriptor sets equal both ways, no duplicates. ChessGame.tla (the generator written as the code's own steps) is model-checked exhaustively from small-material seeds (GenIsLegal).",
            "Bounded-exhaustive model + seeded sampling of real positions; not a proof over all positions. Trusts TLC and the published perft numbers.",
            "TLA+ rules oracle (Chess.tla) + TLC trace validation of recorded generator calls + TLC model check of ChessGame.tla", "5 C01"),
    "C02": (MC, "Every successor object of every recorded generator call is compared field by field (placement, side, rights, ep target, king cache) with Chess!Apply, its descriptor with the legal move and the engine's own printed bestmove text with Chess!MoveText, along chains through the engine's own successor objects; ChessGame.tla invariants SuccIsApply/CacheOk model-checked.",
            "Sampling of histories (seeded); model bounded to small-material seeds and 2-3 plies.",
            "TLC trace validation against Chess!Apply / MoveText + TLC model check of ChessGame.tla", "5 C02"),
    "C04": (MC, "Every generated move is printed by the engine's own bestmove printer, replayed through uci::make_move and judged by TLC against Chess!Apply and against the generator's successor (key included); whole games go through play_out_position and are compared at every prefix; ChessGame.tla invariant TextIsGen (text applier = generator) model-checked.",
            "Sampling of games; model bounded.", "TLC trace validation of the text applier against Chess.tla + TLC model check (TextApply = GenSucc)", "5 C04"),
    "C05": (MC, "The incrementally maintained key is compared with a from-scratch recomputation (through the public getters) for every state produced by the generator (both modes), the text applier, play_out_position and the FEN loader; the difference is resolved to Zobrist features and TLC requires the empty residue; ChessGame.tla models the key as the set of XOR-ed features and TLC checks key = Features(position) on every reachable object; the 781 constants are audited distinct and non-zero.",
            "64-bit XOR abstracted as symmetric difference (justified by the audit); sampling of histories.",
            "feature-set abstraction of Zobrist hashing in TLA+ (KeyIsFeatures) + TLC trace validation of residues", "5 C05"),
    "C06": (MC, "is_check for both colours on exhaustive geometric families (king x attacker kind x square, one blocker between, both kings on every pair) and random placements, each an event judged by TLC against Chess!InCheck; thorough enumerates the families completely.",
            "Families are enumerated by the harness; Chess!Attacked is the trusted definition (perft self-check exercises it).",
            "TLC trace validation of is_check against Chess!InCheck over enumerated families", "5 C06"),
    "C13": (MC, "Capture-only generation along depth-first capture chains (as quiescence follows them) through the engine's own successor objects: per event descriptor set = Chess!LegalCaptures, successors = Chess!Apply, chain consistency; ChessGame.tla invariant CapsIsLegal model-checked.",
            "Sampling of chains; model bounded.", "TLC trace validation of CapturesOnly generation + TLC model check (CapsIsLegal)", "5 C13"),
    "C14": (MC, "get_evaluation on an exhaustive single-piece basis with phase ballast, maximal material and random placements; TLC checks the harness's mirror against Chess!Mirror and the relational contract (mirror-equal, side-negated, insensitive to non-placement fields, bounded).",
            "The specification supplies Mirror/SwapSide and the contract, not the tables (thin use of the spec, stated in DESIGN.md).",
            "TLC trace validation of the evaluation's relational contract using Chess!Mirror", "5 C14"),
    "C15": (MC, "Spec direction: positions rendered as FEN with boundary counters, TLC checks the string equals Chess!ToFen and the loaded state equals the position; totality: mutated and random strings must give Ok or Err (panics caught as data); the real binary's command line must exit 0 on all of them.",
            "'All strings' is sampled.", "TLC trace validation of from_fen against Chess!ToFen/Decode + mutation fuzzing judged by the trace spec", "5 C15"),
}
claimed = sorted(CHECKS)
m = {
    "version": 1,
    "setup_cmd": "./check setup",
    "hooks": {"guard": "walleye_verif",
              "enable": "rustc cfg flag: RUSTFLAGS='--cfg walleye_verif' (harness/.cargo/config.toml sets it; the harness includes /repo/src/*.rs by #[path] so every check recompiles the working tree; lib/vcommon.py build_binary(guard_on=True) builds the instrumented binary)",
              "baseline_off_cmd": "cd /repo && cargo test --workspace --no-fail-fast --offline",
              "source_commits": ["ab59e29"], "add_only": True},
    "engines": [{"name": "tlc", "path": "/usr/local/bin/tlc", "serves_properties": claimed,
                 "kind_free_text": "TLC 1.8.0: exhaustive model runs of spec/*.tla and trace validation of ndjson traces recorded from the real code"}],
    "checks": [],
    "notes": "All checks are decided by the TLA+ specification in /verif/spec (see DESIGN.md). ./check selftest runs the deeper spec self-checks (perft depth 4, bug-variant configurations).",
    "not_applicable": [],
}
for pid in claimed:
    cat, text, note, tech, ref = CHECKS[pid]
    m["checks"].append({"property_id": pid, "quick_cmd": "./check %s --tier quick" % pid, "thorough_cmd": "./check %s --tier thorough" % pid,
                        "evidence_file": "/verif/evidence/%s.json" % pid, "replay_cmd_template": "./check %s --replay {path}" % pid,
                        "engine": "tlc", "level_claimed": {"category": cat, "text": text, "design_ref": ref}, "level_note": note, "technique": tech})
for p in props:
    if p["id"] not in CHECKS:
        m["not_applicable"].append({"property_id": p["id"], "reason": "check under construction in this build phase (designed in DESIGN.md section 5); not yet registered"})
json.dump(m, open(os.path.join(VERIF, "MANIFEST.json"), "w"), indent=1)
print("claimed", claimed)
