#!/bin/bash
# developer helper: run every registered quick (or $1=thorough) check, print id rc seconds
tier=${1:-quick}
cd "$(dirname "$0")/.."
for c in C01 C02 C03 C04 C05 C06 C07 C08 C09 C10 C11 C12 C13 C14 C15 C16 C17 C18; do
  s=$(date +%s)
  out=$(./check $c --tier $tier 2>&1); rc=$?
  e=$(date +%s)
  echo "$c rc=$rc $((e-s))s $(echo "$out" | grep -c VIOLATION) violations"
  echo "$out" | grep "note: conjunct of" | cut -c1-300
  if [ $rc -ne 0 ]; then echo "$out" | tail -5 | cut -c1-300; fi
done
