#!/usr/bin/env python3
"""Developer helper: prepare a round of sub-agent work (scratch worktrees + property text + summaries of known changes).
usage: prep_round.py <root> <ID>...   (prints the prompt file path per id)"""
import glob, json, os, subprocess, sys
V = os.path.dirname(os.path.dirname(os.path.abspath(__file__)))
root = sys.argv[1]
props = {json.loads(l)["id"]: json.loads(l) for l in open(V + "/properties.jsonl")}
tmpl = open(V + "/tools/seeded_prompt.txt").read().replace("/tmp/mut5", root)
for pid in sys.argv[2:]:
    wt = "%s/%s" % (root, pid)
    out = wt + "-out"
    subprocess.run("git -C /repo worktree remove --force %s; rm -rf %s %s" % (wt, wt, out), shell=True, stderr=subprocess.DEVNULL)
    os.makedirs(out)
    subprocess.check_call("git -C /repo worktree add -q --detach %s HEAD && cp /repo/Cargo.lock %s/" % (wt, wt), shell=True)
    json.dump(props[pid], open(out + "/property.json", "w"), indent=1)
    with open(out + "/already_known.txt", "w") as f:
        for d in sorted(glob.glob("%s/seeded/*%s*" % (V, pid))):
            m = json.load(open(d + "/meta.json"))
            kind = "benign (not a violation)" if m.get("benign") else "breaking"
            f.write("- [%s] %s\n  needs: %s\n" % (kind, (m.get("summary") or "")[:700], (m.get("needs") or m.get("why_property_holds") or "")[:300]))
    open(out + "/PROMPT.txt", "w").write(tmpl.replace("@ID@", pid))
    print(out + "/PROMPT.txt")
