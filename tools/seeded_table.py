#!/usr/bin/env python3
"""Rewrites the seeded-defect table and its counts in DESIGN.md from seeded/*/meta.json."""
import glob
import json
import os
import re

VERIF = os.path.dirname(os.path.dirname(os.path.abspath(__file__)))
p = os.path.join(VERIF, "DESIGN.md")
s = open(p).read()
rows, own, total, anyc = [], 0, 0, 0
benign = []
for d in sorted(glob.glob(os.path.join(VERIF, "seeded", "*"))):
    m = json.load(open(d + "/meta.json"))
    name = os.path.basename(d)
    if m.get("benign"):
        det = m.get("detected_by", {})
        alarms = [c for c, v in det.items() if v["violations"] > 0 or v["rc"] not in (0,)]
        summ = (m.get("summary") or "").replace("\n", " ").replace("|", "/")
        benign.append("| %s | %s | %s | %s | %s |" % (name, m["property"], summ[:260], ", ".join(sorted(det)), ", ".join(alarms) or "none"))
        continue
    det = m.get("detected_by", {})
    if m.get("neutralised"):
        rows.append("| %s | %s | %s | %s | %s | %s |" % (name, m["property"], (m.get("summary") or "").replace("\n", " ").replace("|", "/")[:170],
                    (m.get("needs") or "").replace("\n", " ").replace("|", "/")[:150], "(no longer a defect: " + m["neutralised"][:160] + ")", "-"))
        continue
    caught = [c for c, v in det.items() if v["violations"] > 0]
    missed = [c for c, v in det.items() if v["violations"] == 0]
    total += 1
    own += m["property"] in caught
    anyc += bool(caught)
    first = ""
    for c in caught:
        f = det[c].get("first") or []
        if f:
            first = f[0].replace("[check]   ", "").split(":")[0]
            break
    summ = (m.get("summary") or "").replace("\n", " ").replace("|", "/")
    needs = (m.get("needs") or "").replace("\n", " ").replace("|", "/")
    rows.append("| %s | %s | %s | %s | %s | %s |" % (name, m["property"], summ[:170], needs[:150],
                ", ".join(caught) + ((" (first conjunct: `%s`)" % first) if first else ""), ", ".join(missed) or "-"))
i0 = s.index("| seeded | written for | change | needs | caught by | run but not caught by |")
i1 = s.index("\n(end of the seeded table)")
head = "| seeded | written for | change | needs | caught by | run but not caught by |\n|---|---|---|---|---|---|\n"
s = s[:i0] + head + "\n".join(rows) + "\n" + s[i1:]
s = re.sub(r"^\d+ changes written by independent sub-agents", "%d changes written by independent sub-agents" % total, s, flags=re.M)
s = re.sub(r"All \d+ are detected by at least one check, \d+ of them", "All %d are detected by at least one check, %d of them" % (anyc, own), s)
if "| benign | written for | change | checks run against it | alarms |" in s:
    j0 = s.index("| benign | written for | change | checks run against it | alarms |")
    j1 = s.index("\n(end of the benign table)")
    s = s[:j0] + "| benign | written for | change | checks run against it | alarms |\n|---|---|---|---|---|\n" + "\n".join(benign) + s[j1:]
open(p, "w").write(s)
print(total, anyc, own, len(benign))
