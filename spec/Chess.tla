------------------------------- MODULE Chess -------------------------------
(***************************************************************************)
(* The rules of chess, written with no reference to the engine's code.     *)
(* This module is the oracle every rules-related property is decided by.   *)
(*                                                                         *)
(* Squares are 1..64, s = 8*(rank-1)+file (a1 = 1, h1 = 8, a8 = 57).       *)
(* Pieces are 0..12: 0 empty, white 1..6 = P N B R Q K, black 7..12.       *)
(* A position is a record [b, stm, cr, ep]:                                *)
(*   b   placement, a function 1..64 -> 0..12                              *)
(*   stm side to move, 0 white / 1 black                                   *)
(*   cr  castling rights, a subset of {1,2,3,4} = K Q k q                  *)
(*   ep  en-passant target square or 0 (set after EVERY double step,       *)
(*       "classical FEN")                                                  *)
(* A move is <<from, to, promo>>, promo in {0, N, B, R, Q} (kind code).    *)
(***************************************************************************)
EXTENDS Integers, Sequences, FiniteSets, TLC

File(s) == ((s - 1) % 8) + 1
Rank(s) == ((s - 1) \div 8) + 1
Sq(f, r) == 8 * (r - 1) + f
OnBoard(f, r) == f >= 1 /\ f <= 8 /\ r >= 1 /\ r <= 8

P == 1  N == 2  B == 3  R == 4  Q == 5  K == 6
Col(p) == IF p = 0 THEN 2 ELSE IF p <= 6 THEN 0 ELSE 1
Kind(p) == IF p = 0 THEN 0 ELSE IF p <= 6 THEN p ELSE p - 6
Pc(c, k) == k + 6 * c

Dirs == << <<0,1>>, <<0,-1>>, <<1,0>>, <<-1,0>>, <<1,1>>, <<1,-1>>, <<-1,1>>, <<-1,-1>> >>
KnightD == { <<1,2>>, <<2,1>>, <<-1,2>>, <<-2,1>>, <<1,-2>>, <<2,-1>>, <<-1,-2>>, <<-2,-1>> }
KingD == { <<0,1>>, <<0,-1>>, <<1,0>>, <<-1,0>>, <<1,1>>, <<1,-1>>, <<-1,1>>, <<-1,-1>> }

RECURSIVE RayFrom(_, _, _, _)
RayFrom(f, r, df, dr) ==
  IF OnBoard(f + df, r + dr) THEN <<Sq(f + df, r + dr)>> \o RayFrom(f + df, r + dr, df, dr) ELSE <<>>

\* constant-level tables, evaluated once by TLC
Ray == [s \in 1..64 |-> [d \in 1..8 |-> RayFrom(File(s), Rank(s), Dirs[d][1], Dirs[d][2])]]
KnightT == [s \in 1..64 |-> {Sq(File(s) + d[1], Rank(s) + d[2]) : d \in {e \in KnightD : OnBoard(File(s) + e[1], Rank(s) + e[2])}}]
KingT == [s \in 1..64 |-> {Sq(File(s) + d[1], Rank(s) + d[2]) : d \in {e \in KingD : OnBoard(File(s) + e[1], Rank(s) + e[2])}}]
\* squares from which a pawn of colour c attacks s
PawnAtk == [c \in 0..1 |-> [s \in 1..64 |->
   LET dr == IF c = 0 THEN -1 ELSE 1 IN
   {Sq(File(s) + df, Rank(s) + dr) : df \in {e \in {-1, 1} : OnBoard(File(s) + e, Rank(s) + dr)}}]]

RECURSIVE FirstPiece(_, _, _)
FirstPiece(b, ray, i) == IF i > Len(ray) THEN 0 ELSE IF b[ray[i]] # 0 THEN b[ray[i]] ELSE FirstPiece(b, ray, i + 1)

\* is square s attacked by a piece of colour c
Attacked(b, s, c) ==
  \/ \E t \in KnightT[s] : b[t] = Pc(c, N)
  \/ \E t \in KingT[s] : b[t] = Pc(c, K)
  \/ \E t \in PawnAtk[c][s] : b[t] = Pc(c, P)
  \/ \E d \in 1..4 : LET x == FirstPiece(b, Ray[s][d], 1) IN x = Pc(c, R) \/ x = Pc(c, Q)
  \/ \E d \in 5..8 : LET x == FirstPiece(b, Ray[s][d], 1) IN x = Pc(c, B) \/ x = Pc(c, Q)

Kings(b, c) == {s \in 1..64 : b[s] = Pc(c, K)}
KingSq(b, c) == CHOOSE s \in 1..64 : b[s] = Pc(c, K)
InCheck(b, c) == Attacked(b, KingSq(b, c), 1 - c)

RECURSIVE Slide(_, _, _, _)
Slide(b, ray, i, c) ==
  IF i > Len(ray) THEN {}
  ELSE IF b[ray[i]] = 0 THEN {ray[i]} \cup Slide(b, ray, i + 1, c)
  ELSE IF Col(b[ray[i]]) = 1 - c THEN {ray[i]} ELSE {}

Targets(b, s) ==
  LET p == b[s]  c == Col(p)  k == Kind(p) IN
  CASE k = N -> {t \in KnightT[s] : Col(b[t]) # c}
    [] k = K -> {t \in KingT[s] : Col(b[t]) # c}
    [] k = R -> UNION {Slide(b, Ray[s][d], 1, c) : d \in 1..4}
    [] k = B -> UNION {Slide(b, Ray[s][d], 1, c) : d \in 5..8}
    [] k = Q -> UNION {Slide(b, Ray[s][d], 1, c) : d \in 1..8}
    [] OTHER -> {}

PawnMoves(pos, s) ==
  LET b == pos.b  c == pos.stm
      dr == IF c = 0 THEN 1 ELSE -1
      f == File(s)  r == Rank(s)
      startR == IF c = 0 THEN 2 ELSE 7
      promoR == IF c = 0 THEN 8 ELSE 1
      one == Sq(f, r + dr)
      pushes == IF ~OnBoard(f, r + dr) THEN {}
                ELSE IF b[one] = 0
                THEN {one} \cup (IF r = startR /\ b[Sq(f, r + 2 * dr)] = 0 THEN {Sq(f, r + 2 * dr)} ELSE {})
                ELSE {}
      caps == {Sq(f + df, r + dr) : df \in {e \in {-1, 1} : OnBoard(f + e, r + dr) /\
                    (Col(b[Sq(f + e, r + dr)]) = 1 - c \/ (pos.ep # 0 /\ pos.ep = Sq(f + e, r + dr)))}}
      tg == pushes \cup caps
  IN UNION {IF Rank(t) = promoR THEN {<<s, t, k>> : k \in {N, B, R, Q}} ELSE {<<s, t, 0>>} : t \in tg}

CornerRight(s) == CASE s = 8 -> {1} [] s = 1 -> {2} [] s = 64 -> {3} [] s = 57 -> {4} [] OTHER -> {}

IsEpCapture(pos, m) ==
  /\ pos.ep # 0 /\ m[2] = pos.ep /\ Kind(pos.b[m[1]]) = P /\ File(m[1]) # File(m[2])
IsCastle(pos, m) ==
  Kind(pos.b[m[1]]) = K /\ (File(m[2]) - File(m[1]) = 2 \/ File(m[1]) - File(m[2]) = 2)
IsCapture(pos, m) == pos.b[m[2]] # 0 \/ IsEpCapture(pos, m)

Apply(pos, m) ==
  LET b == pos.b  c == pos.stm  s == m[1]  t == m[2]
      p == b[s]  k == Kind(p)
      isEp == IsEpCapture(pos, m)
      isCastle == IsCastle(pos, m)
      epVictim == IF c = 0 THEN t - 8 ELSE t + 8
      rookFrom == IF File(t) = 7 THEN t + 1 ELSE t - 2
      rookTo == IF File(t) = 7 THEN t - 1 ELSE t + 1
      placed == IF m[3] # 0 THEN Pc(c, m[3]) ELSE p
      nb == [x \in 1..64 |->
               IF x = s THEN 0
               ELSE IF x = t THEN placed
               ELSE IF isEp /\ x = epVictim THEN 0
               ELSE IF isCastle /\ x = rookFrom THEN 0
               ELSE IF isCastle /\ x = rookTo THEN Pc(c, R)
               ELSE b[x]]
      lost == (IF k = K THEN (IF c = 0 THEN {1, 2} ELSE {3, 4}) ELSE {}) \cup CornerRight(s) \cup CornerRight(t)
      nep == IF k = P /\ (Rank(t) - Rank(s) = 2 \/ Rank(s) - Rank(t) = 2) THEN (s + t) \div 2 ELSE 0
  IN [b |-> nb, stm |-> 1 - c, cr |-> pos.cr \ lost, ep |-> nep]

\* castling: right held, squares between empty, king not attacked on its start,
\* transit and target square by ANY enemy piece (the enemy king included)
CastleMoves(pos) ==
  LET b == pos.b  c == pos.stm  o == 1 - c
      e == IF c = 0 THEN 5 ELSE 61
      ks == IF c = 0 THEN 1 ELSE 3
      qs == IF c = 0 THEN 2 ELSE 4
  IN (IF ks \in pos.cr /\ b[e + 1] = 0 /\ b[e + 2] = 0 /\ ~Attacked(b, e, o) /\ ~Attacked(b, e + 1, o) /\ ~Attacked(b, e + 2, o)
      THEN {<<e, e + 2, 0>>} ELSE {})
     \cup
     (IF qs \in pos.cr /\ b[e - 1] = 0 /\ b[e - 2] = 0 /\ b[e - 3] = 0 /\ ~Attacked(b, e, o) /\ ~Attacked(b, e - 1, o) /\ ~Attacked(b, e - 2, o)
      THEN {<<e, e - 2, 0>>} ELSE {})

Pseudo(pos) ==
  LET b == pos.b  c == pos.stm IN
  UNION {IF Kind(b[s]) = P THEN PawnMoves(pos, s) ELSE {<<s, t, 0>> : t \in Targets(b, s)} : s \in {x \in 1..64 : Col(b[x]) = c}}

Legal(pos) ==
  {m \in Pseudo(pos) : ~InCheck(Apply(pos, m).b, pos.stm)} \cup CastleMoves(pos)

LegalCaptures(pos) == {m \in Legal(pos) : IsCapture(pos, m)}

(***************************************************************************)
(* Well-formedness: exactly the precondition "legal position" of the       *)
(* properties.                                                             *)
(***************************************************************************)
WellFormed(pos) ==
  LET b == pos.b IN
  /\ Cardinality(Kings(b, 0)) = 1 /\ Cardinality(Kings(b, 1)) = 1
  /\ ~InCheck(b, 1 - pos.stm)
  /\ \A s \in (1..8) \cup (57..64) : Kind(b[s]) # P
  /\ (1 \in pos.cr => b[5] = Pc(0, K) /\ b[8] = Pc(0, R))
  /\ (2 \in pos.cr => b[5] = Pc(0, K) /\ b[1] = Pc(0, R))
  /\ (3 \in pos.cr => b[61] = Pc(1, K) /\ b[64] = Pc(1, R))
  /\ (4 \in pos.cr => b[61] = Pc(1, K) /\ b[57] = Pc(1, R))
  /\ (pos.ep # 0 =>
        IF pos.stm = 0   \* black has just double-stepped: target on rank 6
        THEN Rank(pos.ep) = 6 /\ b[pos.ep] = 0 /\ b[pos.ep - 8] = Pc(1, P) /\ b[pos.ep + 8] = 0
        ELSE Rank(pos.ep) = 3 /\ b[pos.ep] = 0 /\ b[pos.ep + 8] = Pc(0, P) /\ b[pos.ep - 8] = 0)

Checkmate(pos) == InCheck(pos.b, pos.stm) /\ Legal(pos) = {}
Stalemate(pos) == ~InCheck(pos.b, pos.stm) /\ Legal(pos) = {}

\* the side to move can force checkmate in at most n of its own moves
RECURSIVE MateWithin(_, _), MatedWithin(_, _)
MateWithin(pos, n) ==
  /\ n >= 1
  /\ \E m \in Legal(pos) :
       LET p2 == Apply(pos, m) IN
       \/ Checkmate(p2)
       \/ (n > 1 /\ MatedWithin(p2, n - 1))
\* the side to move has a move, and whatever it plays the opponent mates within n moves
MatedWithin(pos, n) ==
  /\ n >= 1
  /\ Legal(pos) # {}
  /\ \A m \in Legal(pos) : MateWithin(Apply(pos, m), n)

(***************************************************************************)
(* What the position hash is a function of, and the hash abstraction:      *)
(* XOR of Zobrist constants is modelled as the set of features XOR-ed in   *)
(* (symmetric difference).  Feature ids: 1..768 piece p on square s =      *)
(* 64*(p-1)+s, 769 black to move, 770..773 the four rights, 774..781 the   *)
(* file of the en-passant target.                                          *)
(***************************************************************************)
EpFile(pos) == IF pos.ep = 0 THEN 0 ELSE File(pos.ep)
Identity(pos) == <<pos.b, pos.stm, pos.cr, EpFile(pos)>>
PcFeature(p, s) == 64 * (p - 1) + s
Features(pos) ==
  {PcFeature(pos.b[s], s) : s \in {x \in 1..64 : pos.b[x] # 0}}
  \cup (IF pos.stm = 1 THEN {769} ELSE {})
  \cup {769 + i : i \in pos.cr}
  \cup (IF pos.ep # 0 THEN {773 + File(pos.ep)} ELSE {})
SymDiff(A, BB) == (A \ BB) \cup (BB \ A)

(***************************************************************************)
(* Colour mirror and side swap (evaluation symmetry).                      *)
(***************************************************************************)
FlipSq(s) == Sq(File(s), 9 - Rank(s))
FlipPc(p) == IF p = 0 THEN 0 ELSE IF p <= 6 THEN p + 6 ELSE p - 6
FlipRight(i) == CASE i = 1 -> 3 [] i = 2 -> 4 [] i = 3 -> 1 [] i = 4 -> 2
Mirror(pos) == [b |-> [s \in 1..64 |-> FlipPc(pos.b[FlipSq(s)])],
                stm |-> 1 - pos.stm,
                cr |-> {FlipRight(i) : i \in pos.cr},
                ep |-> IF pos.ep = 0 THEN 0 ELSE FlipSq(pos.ep)]
SwapSide(pos) == [pos EXCEPT !.stm = 1 - @]

(***************************************************************************)
(* Text: square names, UCI long algebraic move text, FEN rendering.        *)
(***************************************************************************)
FileName == <<"a", "b", "c", "d", "e", "f", "g", "h">>
RankName == <<"1", "2", "3", "4", "5", "6", "7", "8">>
SqName(s) == FileName[File(s)] \o RankName[Rank(s)]
PromoLetter(k) == CASE k = N -> "n" [] k = B -> "b" [] k = R -> "r" [] k = Q -> "q" [] OTHER -> ""
MoveText(m) == SqName(m[1]) \o SqName(m[2]) \o PromoLetter(m[3])
PcLetter == <<"P", "N", "B", "R", "Q", "K", "p", "n", "b", "r", "q", "k">>

RECURSIVE FenRow(_, _, _, _)
FenRow(b, r, f, run) ==
  IF f > 8 THEN (IF run > 0 THEN ToString(run) ELSE "")
  ELSE IF b[Sq(f, r)] = 0 THEN FenRow(b, r, f + 1, run + 1)
  ELSE (IF run > 0 THEN ToString(run) ELSE "") \o PcLetter[b[Sq(f, r)]] \o FenRow(b, r, f + 1, 0)
RECURSIVE FenRows(_, _)
FenRows(b, r) == IF r = 1 THEN FenRow(b, 1, 1, 0) ELSE FenRow(b, r, 1, 0) \o "/" \o FenRows(b, r - 1)
FenRights(cr) == IF cr = {} THEN "-"
                 ELSE (IF 1 \in cr THEN "K" ELSE "") \o (IF 2 \in cr THEN "Q" ELSE "")
                      \o (IF 3 \in cr THEN "k" ELSE "") \o (IF 4 \in cr THEN "q" ELSE "")
ToFen(pos, half, full) ==
  FenRows(pos.b, 8) \o " " \o (IF pos.stm = 0 THEN "w" ELSE "b") \o " " \o FenRights(pos.cr) \o " "
  \o (IF pos.ep = 0 THEN "-" ELSE SqName(pos.ep)) \o " " \o ToString(half) \o " " \o ToString(full)

(***************************************************************************)
(* Compact integer encoding shared with the Rust harness: one base-13      *)
(* number per rank (a-file least significant), rights as a bit mask.       *)
(***************************************************************************)
Pow13 == <<1, 13, 169, 2197, 28561, 371293, 4826809, 62748517>>
DecodeB(r) == [s \in 1..64 |-> (r[Rank(s)] \div Pow13[File(s)]) % 13]
RECURSIVE RankVal(_, _, _)
RankVal(b, r, f) == IF f > 8 THEN 0 ELSE b[Sq(f, r)] + 13 * RankVal(b, r, f + 1)
EncodeR(b) == [r \in 1..8 |-> RankVal(b, r, 1)]
CrInt(cr) == (IF 1 \in cr THEN 1 ELSE 0) + (IF 2 \in cr THEN 2 ELSE 0) + (IF 3 \in cr THEN 4 ELSE 0) + (IF 4 \in cr THEN 8 ELSE 0)
CrSet(n) == {i \in 1..4 : (n \div (2^(i-1))) % 2 = 1}
Decode(e) == [b |-> DecodeB(e.r), stm |-> e.stm, cr |-> CrSet(e.cr), ep |-> e.ep]
Encode(p) == [r |-> EncodeR(p.b), stm |-> p.stm, cr |-> CrInt(p.cr), ep |-> p.ep]

=============================================================================
