SPECIFICATION Spec
INVARIANT EmitPerp
CHECK_DEADLOCK FALSE
