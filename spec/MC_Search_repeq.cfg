SPECIFICATION Spec
CONSTANTS
  RepGE = FALSE
  RootGuard = TRUE
INVARIANT InvPrefix
INVARIANT InvSends
INVARIANT InvRep
INVARIANT InvScores
INVARIANT InvExact
INVARIANT InvRepDraw
INVARIANT InvMateInOne
CHECK_DEADLOCK FALSE
