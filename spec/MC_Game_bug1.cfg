SPECIFICATION Spec
CONSTANTS
  BugKingTestIgnoresProbe = TRUE
  BugCastleKeepsPromotion = FALSE
  BugDoubleStepKeepsOldEp = FALSE
  BugCapsModeSkipsFinalise = FALSE
  Seeds <- SeedsC
  MaxPly <- MaxPlyC
VIEW View
INVARIANT WellFormedClosed
INVARIANT CacheOk
INVARIANT KeyIsFeatures
INVARIANT GenIsLegal
INVARIANT SuccIsApply
INVARIANT TextIsGen
INVARIANT CapsIsLegal
INVARIANT RepExact
CHECK_DEADLOCK FALSE
