---------------------------- MODULE SliceContract ----------------------------
(***************************************************************************)
(* The time-slice contract in pure integer arithmetic (no TLC-only         *)
(* modules), shared by TimeControl.tla (TLC, 32-bit integers) and by the   *)
(* generated BigSlices modules checked with Apalache (unbounded integers)  *)
(* for clocks far beyond 2^31.                                             *)
(***************************************************************************)
EXTENDS Integers

Margin == 100
DefaultMtg == 30
Max0(x) == IF x > 0 THEN x ELSE 0

\* slice <= round(0.8 * base / mtg)  <=>  slice <= floor((8*base + 5*mtg) / (10*mtg))   (no 32-bit overflow for clock <= 2*10^8)
SliceOK(clock, inc, mtg, slice) ==
  LET base == clock - Margin IN
  /\ slice >= 0
  /\ slice <= Max0(clock)
  /\ (base > 0 => slice <= (8 * base + 5 * mtg) \div (10 * mtg))
  /\ (base <= 0 /\ inc <= 0 => slice = 0)

=============================================================================
