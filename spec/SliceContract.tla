---------------------------- MODULE SliceContract ----------------------------
(***************************************************************************)
(* The time-slice contract in pure integer arithmetic (no TLC-only         *)
(* modules), shared by TimeControl.tla (TLC, 32-bit integers) and by the   *)
(* generated BigSlices modules checked with Apalache (unbounded integers)  *)
(* for clocks far beyond 2^31.                                             *)
(***************************************************************************)
EXTENDS Integers

Margin == 100
DefaultMtg == 30
Max0(x) == IF x > 0 THEN x ELSE 0

\* slice <= round(0.8 * base / mtg)  <=>  slice <= floor((8*base + 5*mtg) / (10*mtg))   (no 32-bit overflow for clock <= 2*10^8)
SliceOK(clock, inc, mtg, slice) ==
  LET base == clock - Margin IN
  /\ slice >= 0
  /\ slice <= Max0(clock)
  /\ (base > 0 => slice <= (8 * base + 5 * mtg) \div (10 * mtg))
  /\ (base <= 0 /\ inc <= 0 => slice = 0)

(***************************************************************************)
(* The engine's own formula (time_control.rs) transcribed into integers:   *)
(* SliceProof.tla shows with Apalache that it meets SliceOK for every      *)
(* integer clock and increment; the trace specification counts on how many *)
(* recorded events the real calculate_time_slice returned exactly this     *)
(* value (coverage of that argument - a different formula that still meets *)
(* SliceOK is not a violation).  variant "pinned" = the pinned commit.     *)
(***************************************************************************)
Round08(x) == (8 * x + 5) \div 10            \* round-half-up of 0.8 * x for x >= 0
MinI(a, b) == IF a < b THEN a ELSE b
CodeSliceOf(c, i, m, variant) ==
  LET base == c - Margin IN
  IF base <= 0
  THEN IF i > 0 THEN (IF variant = "pinned" THEN Round08(i) ELSE MinI(Round08(i), Max0(c))) ELSE 0
  ELSE (8 * base + 5 * m) \div (10 * m)

=============================================================================
