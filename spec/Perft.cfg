INIT Init
NEXT Next
