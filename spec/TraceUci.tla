------------------------------ MODULE TraceUci ------------------------------
(***************************************************************************)
(* Trace validation of recorded sessions of the REAL binary (pure black    *)
(* box over pipes, time-stamped by the driver), against the process model  *)
(* of Walleye.tla instantiated with the real rules of Chess.tla and the    *)
(* time contract of TimeControl.tla.                                       *)
(*                                                                         *)
(* Events (one per line, in the order the driver observed them):           *)
(*   reset     a fresh process starts                                      *)
(*   in        a line written to the engine (time t)                       *)
(*   out       a line read from the engine (time t), tokenised             *)
(*   timeout   the driver waited in vain for bestmove / readyok            *)
(*   closed    stdout was closed while waiting                             *)
(*   eofin     the driver closed the engine's standard input               *)
(*   exit      the process ended (or had to be killed)                     *)
(*   slice     pure event: parse_go_command + calculate_time_slice         *)
(*   posdump   (instrumented binary) board and repetition record as the    *)
(*             command loop holds them after a position command            *)
(*                                                                         *)
(* The session state s mirrors Walleye.tla's I/O thread: the position the  *)
(* engine must hold (tracked with Chess!Apply), the pending go, the        *)
(* pending isready.  Verdict registers as in the other trace specs.        *)
(***************************************************************************)
EXTENDS Chess, TimeControl, Search, Json, TLCExt, SequencesExt

Rec == ndJsonDeserialize(IOEnv.TRACE)
Overhead == atoi(IOEnv.OVERHEAD)     \* ms allowed on top of the planned slice
QuitLimit == 1000
EofLimit == 2000

VARIABLES l, bad, cnt, s, memo, hs
vars == <<l, bad, cnt, s, memo, hs>>
D(x) == ToString(x)
Has(e, f) == f \in DOMAIN e

StartPos == Decode([r |-> <<261944453, 67977560, 0, 0, 0, 0, 475842920, 669809813>>, stm |-> 0, cr |-> 15, ep |-> 0])
NoGo == [active |-> FALSE, toks |-> <<>>]
Fresh == [pos |-> StartPos, hist |-> <<StartPos>>, go |-> NoGo, prevlegal |-> {}, ready |-> 0, eof |-> FALSE, quit |-> FALSE, tend |-> 0, dead |-> FALSE, cmd |-> "startpos", skip |-> FALSE, base |-> <<StartPos>>, gos |-> 0]

RECURSIVE Play(_, _, _)
Play(p, texts, i) ==
  IF i > Len(texts) THEN <<p>>
  ELSE LET ms == {m \in Legal(p) : MoveText(m) = texts[i]} IN
       IF ms = {} THEN <<p>>
       ELSE <<p>> \o Play(Apply(p, CHOOSE x \in ms : TRUE), texts, i + 1)

NoReply == "(no reply)"
PvTexts(legal) == {MoveText(m) : m \in legal} \cup {MoveText(<<m[1], m[2], 0>>) : m \in legal}
SRank(i) == ScoreRank(i.kind, i.val)
Seen(i) == <<i.depth, i.nodes, i.kind, i.val, i.pv[1]>>

(***************************************************************************)
(* in: a line written to the engine.                                       *)
(***************************************************************************)
InFails(e) ==
  \* the engine must not be talked to while a go is unanswered in these sessions (the driver waits), so a
  \* pending go here means the previous one was never answered - reported at the timeout event
  IF Has(e, "position")
  THEN LET p == e.position  p0 == Decode(p.start) IN
       (IF ToFen(p0, p.half, p.full) # p.fen THEN {<<"TOOL", "driver-fen", D(p.fen)>>} ELSE {})

  ELSE IF Has(e, "go") /\ Has(e, "nocontract") THEN {}     \* numbers beyond TLC's integers: the contract is not evaluated here
  ELSE IF Has(e, "go")
  THEN LET toks == e.toks
           tc == ParseGo(toks)
           stm == s.pos.stm
           slice == IF stm = 0 THEN e.slice_w ELSE e.slice_b
       IN \* C09: the plan the engine derives from this go obeys the contract for the side to move
          (IF ~SliceOK(MoverClock(tc, stm), MoverInc(tc, stm), Mtg(tc), slice)
           THEN {<<"C09", "slice-contract", D(<<e.line, stm, slice>>)>>} ELSE {})
  ELSE {}

\* the answered go stays the attribution context for late info lines until the next command is written
CloseGo(st) == IF st.go.active /\ st.go.answers >= 1 THEN [st EXCEPT !.go = NoGo, !.prevlegal = st.go.legal] ELSE st

InStep(e) ==
  LET sc == CloseGo(s) IN
  IF Has(e, "position")
  THEN LET p == e.position  h == Play(Decode(p.start), p.texts, 1) IN
       \* a move list that is not legal by the rules (it came from the engine's own generator): nothing can be judged
       \* on this position, the session is skipped until the next position command
       IF Len(h) # Len(p.texts) + 1 THEN [sc EXCEPT !.skip = TRUE, !.cmd = e.line]
       ELSE [sc EXCEPT !.pos = h[Len(h)], !.hist = h, !.base = h, !.cmd = e.line, !.skip = FALSE, !.gos = 0]
  ELSE IF Has(e, "go")
  THEN LET legal == Legal(sc.pos) IN
       [sc EXCEPT !.gos = @ + 1,
                  !.go = [active |-> TRUE, t |-> e.t, line |-> e.line, toks |-> IF Has(e, "nocontract") THEN <<>> ELSE e.toks,
                          slice |-> IF sc.pos.stm = 0 THEN e.slice_w ELSE e.slice_b,
                          legal |-> legal, infos |-> <<>>, answers |-> 0, foreign |-> 0,
                          probe |-> IF Has(e, "probe") THEN e.probe ELSE "", timed |-> Has(e, "timed") /\ e.timed,
                          notime |-> Has(e, "notime") /\ e.notime]]
  ELSE IF Has(e, "isready") THEN [sc EXCEPT !.ready = @ + 1]
  ELSE IF Has(e, "quit") THEN [sc EXCEPT !.quit = TRUE, !.tend = e.t]
  \* ucinewgame: the properties say nothing about the board a go finds after it when no position command follows (the pinned
  \* code keeps its board, an engine that returns to the start position is as right): nothing is judged until the next
  \* position command
  ELSE IF Has(e, "newgame") THEN [sc EXCEPT !.skip = TRUE]
  ELSE sc

(***************************************************************************)
(* out: a line printed by the engine.                                      *)
(***************************************************************************)
InfoFails(g, i) ==
  IF ~i.ok THEN {<<"C18", "malformed", D(i.raw)>>}
  ELSE (IF i.depth < 1 THEN {<<"C18", "depth", D(i.raw)>>} ELSE {})
       \cup (IF i.kind = "mate" /\ i.val = 0 THEN {<<"C18", "mate-zero", D(i.raw)>>} ELSE {})
       \cup (IF i.kind = "cp" /\ (i.val >= POSINF \/ i.val <= NEGINF \/ i.val > MATE \/ i.val < -MATE) THEN {<<"C18", "score-bound", D(i.raw)>>} ELSE {})
       \cup (IF i.kind = "mate" /\ (i.val > 50 \/ i.val < -50) THEN {<<"C18", "mate-bound", D(i.raw)>>} ELSE {})
       \cup (IF i.pv[1] \notin PvTexts(g.legal) THEN {<<"C18", "pv-illegal", D(i.raw)>>} ELSE {})
       \cup (IF Len(g.infos) > 0
             THEN LET pr == g.infos[Len(g.infos)] IN
                  (IF pr.depth > i.depth THEN {<<"C18", "depth-decreases", D(i.raw)>>} ELSE {})
                  \cup (IF pr.depth = i.depth /\ SRank(pr) >= SRank(i) /\ ~(i.kind = "mate" /\ pr.kind = "mate" /\ i.val = pr.val)
                        THEN {<<"C18", "not-increasing", D(i.raw)>>} ELSE {})
             ELSE {})

PrefixRelated(a, b) == IsPrefix(a, b) \/ IsPrefix(b, a)

BestFails(e) ==
  LET g == s.go IN
  IF ~g.active THEN {<<"C03", "bestmove-without-go", D(e.line)>>}
  ELSE
  LET texts == {MoveText(m) : m \in g.legal}
      dt == e.t - g.t
  IN
  (IF g.answers >= 1 THEN {<<"C03", "second-bestmove", D(<<g.line, e.line>>)>>} ELSE {})
  \cup (IF ~e.wellformed THEN {<<"C03", "bestmove-malformed", D(e.line)>>} ELSE {})
  \cup
  \* legality: a legal move spelled in UCI notation; the null move iff no legal move exists
  (IF g.legal = {}
   THEN (IF e.move \notin {"0000", "(none)"} THEN {<<"C08", "terminal-answer", D(<<s.cmd, e.line>>)>>} ELSE {})
   ELSE (IF e.move \notin texts THEN {<<"C03", "illegal-bestmove", D(<<s.cmd, g.line, e.line>>)>>} ELSE {}))
  \cup
  \* timing: never before the planned slice has passed (the go was stamped before it was written), and no later
  \* than slice + overhead; a finished game may be answered at once
  (IF g.legal # {} /\ ~g.notime /\ dt < g.slice THEN {<<"C09", "answered-before-deadline", D(<<g.line, g.slice, dt>>)>>} ELSE {})
  \cup (IF ~g.notime /\ dt > g.slice + Overhead THEN {<<"C08", "answered-late", D(<<s.cmd, g.line, g.slice, dt>>)>>} ELSE {})
  \cup
  \* C16 / C17: the same request gives the same reply whatever preceded it
  (IF g.probe # "" /\ g.probe \in DOMAIN memo
   THEN LET old == memo[g.probe] IN
        IF ~g.timed
        THEN (IF old.move # e.move THEN {<<"C16", "reply-depends-on-history", D(<<s.cmd, g.line, old.move, e.move>>)>>} ELSE {})
        ELSE (IF old.move = NoReply \/ ~PrefixRelated(old.infos, [j \in 1..Len(g.infos) |-> Seen(g.infos[j])])
              THEN {<<"C16", "improvements-depend-on-history", D(<<s.cmd, g.line>>)>>} ELSE {})
   ELSE {})

\* Output attribution.  The search thread of the PREVIOUS go may print one last info line after its deadline (it passed
\* its clock test just before); under load that line can surface after the next go was written.  Such a line betrays
\* itself: it reports more elapsed time than has passed since the current go was sent (a genuine line's `time` is
\* measured from a start that is not earlier than the moment the driver stamped the go).  Foreign lines are not judged
\* and not recorded for the current go.
\* (On a heavily loaded machine a search thread can be pre-empted between handing over its board and printing the line
\* it has already formatted: the command loop answers from the board, the next go is written, and only then the line of the
\* EARLIER search surfaces, carrying a small `time`.  Such a line is recognised by its content: its first pv move is no
\* move of the position searched now, but it is a move of the position the previous go searched.)
ForeignByTime(e) == e.info.time > (e.t - s.go.t) + 1
ForeignByContent(e) == /\ e.info.pv[1] \notin PvTexts(s.go.legal)
                       /\ e.info.pv[1] \in PvTexts(s.prevlegal)
Foreign(e) == s.go.active /\ e.info.ok /\ (ForeignByTime(e) \/ ForeignByContent(e))

\* one late line per previous search is the benign race; a previous search that KEEPS printing into the current one is not
MaxForeign == 2
OutFails(e) ==
  CASE e.k = "info" -> (IF s.go.active /\ ~Foreign(e) THEN InfoFails(s.go, e.info)
                        ELSE IF s.go.active /\ Foreign(e) /\ s.go.foreign >= MaxForeign
                        THEN {<<"C18", "lines-of-a-previous-search", D(e.info.raw)>>}
                             \* ... and when the go is a probe, what the earlier traffic printed has become part of the reply to it
                             \cup (IF s.go.probe # "" THEN {<<"C16", "earlier-search-prints-into-this-reply", D(<<s.cmd, e.info.raw>>)>>} ELSE {})
                        ELSE {})
    [] e.k = "bestmove" -> BestFails(e)
    \* a `readyok` nobody asked for: some line that is not an isready command was not ignored
    [] e.k = "readyok" -> IF s.ready = 0 THEN {<<"C17", "readyok-without-isready", D(s.cmd)>>} ELSE {}
    [] OTHER -> {}

OutStep(e) ==
  CASE e.k = "info" -> IF s.go.active /\ e.info.ok /\ ~Foreign(e) THEN [s EXCEPT !.go.infos = Append(@, e.info)]
                       ELSE IF s.go.active /\ Foreign(e) THEN [s EXCEPT !.go.foreign = @ + 1] ELSE s
    [] e.k = "bestmove" ->
         IF ~s.go.active THEN s
         ELSE LET ms == {m \in s.go.legal : MoveText(m) = e.move} IN
              IF s.go.answers >= 1 THEN s      \* a second answer: reported, position not advanced twice
              ELSE IF ms = {} THEN [s EXCEPT !.go.answers = 1]
              ELSE LET np == Apply(s.pos, CHOOSE x \in ms : TRUE) IN
                   [s EXCEPT !.pos = np, !.hist = Append(@, np), !.go.answers = 1]
    [] e.k = "readyok" -> [s EXCEPT !.ready = IF @ > 0 THEN @ - 1 ELSE 0]
    [] OTHER -> s

\* (a probe that is never answered is remembered as such: "no reply" is a reply that must not depend on the history either)
MemoStep(e) ==
  IF e.ev = "out" /\ e.k = "bestmove" /\ s.go.active /\ s.go.answers = 0 /\ s.go.probe # "" /\ s.go.probe \notin DOMAIN memo
  THEN memo @@ (s.go.probe :> [move |-> e.move, infos |-> [j \in 1..Len(s.go.infos) |-> Seen(s.go.infos[j])]])
  ELSE IF e.ev \in {"timeout", "closed"} /\ e.waiting = "bestmove" /\ s.go.active /\ s.go.answers = 0 /\ s.go.probe # "" /\ s.go.probe \notin DOMAIN memo
          /\ ~s.skip
  THEN memo @@ (s.go.probe :> [move |-> NoReply, infos |-> <<>>])
  ELSE memo

(***************************************************************************)
(* timeouts, end of input, exit.                                           *)
(***************************************************************************)
TimeoutFails(e) ==
  IF e.waiting = "bestmove" THEN {<<"C08", "go-never-answered", D(<<s.cmd, IF s.go.active THEN s.go.line ELSE "">>)>>,
                                  <<"C03", "go-without-bestmove", D(<<s.cmd, IF s.go.active THEN s.go.line ELSE "">>)>>}
                                 \* C16: the same request was answered when it was asked of an engine with another history
                                 \cup (IF s.go.active /\ s.go.probe # "" /\ s.go.probe \in DOMAIN memo /\ memo[s.go.probe].move # NoReply
                                       THEN {<<"C16", "reply-depends-on-history", D(<<s.cmd, s.go.line, memo[s.go.probe].move, NoReply>>)>>} ELSE {})
  ELSE IF e.waiting = "readyok" THEN {<<"C17", "isready-never-answered", D(s.cmd)>>}
  ELSE {<<"C17", "handshake", "">>}

ExitFails(e) ==
  CASE e.after = "quit" -> (IF e.killed \/ e.waited > QuitLimit THEN {<<"C17", "quit-does-not-end-process", D(e.waited)>>} ELSE {})
    [] e.after = "eof" -> (IF e.killed \/ e.waited > EofLimit THEN {<<"C17", "end-of-input-does-not-end-process", D(e.waited)>>} ELSE {})
    [] e.after = "died" -> {<<"C17", "process-died", D(<<s.cmd, e.code>>)>>}
    [] OTHER -> {}

(***************************************************************************)
(* slice: pure event from the harness (uci::parse_go_command +             *)
(* GameTime::calculate_time_slice through the verification wrappers).      *)
(***************************************************************************)
SliceFails(e) ==
  LET tc == ParseGo(e.toks) IN
  (IF tc.wtime # e.parsed.wtime \/ tc.btime # e.parsed.btime \/ tc.winc # e.parsed.winc \/ tc.binc # e.parsed.binc
      \/ tc.movestogo # e.parsed.movestogo
   THEN {<<"C09", "go-parse", D(e.toks)>>} ELSE {})
  \cup (IF ~SliceOK(tc.wtime, tc.winc, Mtg(tc), e.slice_w) THEN {<<"C09", "slice-contract-white", D(<<e.toks, e.slice_w>>)>>} ELSE {})
  \cup (IF ~SliceOK(tc.btime, tc.binc, Mtg(tc), e.slice_b) THEN {<<"C09", "slice-contract-black", D(<<e.toks, e.slice_b>>)>>} ELSE {})
  \* C17: unknown tokens inside go are ignored - the same go without them (canon_toks; that it IS the same go is decided by
  \* the specification's own scan) is parsed and planned identically by the engine
  \cup (IF ~Has(e, "canon_toks") THEN {}
        ELSE IF ParseGo(e.canon_toks) # tc THEN {<<"TOOL", "canonical-go-differs", D(<<e.toks, e.canon_toks>>)>>}
        ELSE IF Has(e, "canon_panic") THEN {}
        ELSE IF Has(e, "panic") THEN {<<"C17", "unknown-go-token-panics", D(e.toks)>>}
        ELSE IF e.canon_parsed # e.parsed \/ e.canon_slice_w # e.slice_w \/ e.canon_slice_b # e.slice_b
             THEN {<<"C17", "unknown-go-token-changes-plan", D(<<e.toks, e.parsed, e.canon_parsed>>)>>} ELSE {})
  \* only the mover's clock and increment matter: the same go with the other side's values changed
  \cup (IF e.slice_w_alt # e.slice_w THEN {<<"C09", "white-slice-depends-on-black-values", D(e.toks)>>} ELSE {})
  \cup (IF e.slice_b_alt # e.slice_b THEN {<<"C09", "black-slice-depends-on-white-values", D(e.toks)>>} ELSE {})

(***************************************************************************)
(* posdump: board + repetition record inside the real command loop.       *)
(***************************************************************************)
SameAs(p, e) == /\ EncodeR(p.b) = e.r /\ p.stm = e.stm /\ p.ep = e.ep /\ CrInt(p.cr) = e.cr
PosDumpFails(e) ==
  LET h == s.hist  n == Len(h)
      ids == [i \in 1..n |-> Identity(h[i])]
      distinct == Cardinality({ids[i] : i \in 1..n})
      counts == {Cardinality({j \in 1..n : ids[j] = ids[i]}) : i \in 1..n}
      tbl == [j \in 1..Len(e.table) |-> e.table[j][2]]
      \* multiset of counts of the record (nonzero entries) against the multiset of occurrence counts of the history
      recCounts(c) == Cardinality({j \in 1..Len(e.table) : e.table[j][2] = c})
      histCounts(c) == Cardinality({ids[i] : i \in {x \in 1..n : Cardinality({j \in 1..n : ids[j] = ids[x]}) = c}})
  IN (IF ~SameAs(h[n], e.board) THEN {<<"C04", "loop-board", D(s.cmd)>>} ELSE {})
     \cup (IF \E c \in counts \cup {e.table[j][2] : j \in 1..Len(e.table)} : c # 0 /\ recCounts(c) # histCounts(c)
           THEN {<<"C10", "record-in-loop", D(<<s.cmd, [j \in 1..Len(e.table) |-> e.table[j][2]]>>)>>} ELSE {})

(***************************************************************************)
(* hk: events written by the INSTRUMENTED binary at the linearization      *)
(* points of Walleye.tla's actions, in the order of one global sequence    *)
(* number taken under the sink's lock:                                     *)
(*   go_start  = GoAccept   (slice planned, root board)                    *)
(*   srch_send = SrchImprove / SrchStop's fallback (stamped BEFORE tx.send)*)
(*   io_recv   = PollRecv   (stamped AFTER try_recv returned a board)      *)
(*   io_exit   = PollExit   (with the clock's answer at that moment)       *)
(* hs mirrors the model's chan / best / root for the go being served.      *)
(***************************************************************************)
NoHs == [active |-> FALSE, hasPrev |-> FALSE]
SameBoard(a, b) == a.r = b.r /\ a.stm = b.stm /\ a.cr = b.cr /\ a.ep = b.ep /\ a.d = b.d
\* C10 at every go: the record handed to the search thread holds the occurrence counts of the game the last position
\* command described (compared as multisets of counts: black box, the keys are opaque), whatever go commands were
\* served in between (the engine's own replies are not part of that game)
RecordMatches(h, tbl) ==
  LET n == Len(h)
      ids == [i \in 1..n |-> Identity(h[i])]
      counts == {Cardinality({j \in 1..n : ids[j] = ids[i]}) : i \in 1..n}
      recCounts(c) == Cardinality({j \in 1..Len(tbl) : tbl[j][2] = c})
      histCounts(c) == Cardinality({ids[i] : i \in {x \in 1..n : Cardinality({j \in 1..n : ids[j] = ids[x]}) = c}})
  IN \A c \in counts \cup {tbl[j][2] : j \in 1..Len(tbl)} : c = 0 \/ recCounts(c) = histCounts(c)

\* at a further go without a new position command the record must still hold the described game (an engine may have added
\* its own replies, it may not have lost the game): for every t at least as many record entries with count >= t as
\* positions of the game that occurred >= t times
RecordCovers(h, tbl) ==
  LET n == Len(h)
      ids == [i \in 1..n |-> Identity(h[i])]
      occ(i) == Cardinality({j \in 1..n : ids[j] = ids[i]})
      maxc == IF n = 0 THEN 0 ELSE CHOOSE c \in {occ(i) : i \in 1..n} : \A i \in 1..n : occ(i) <= c
  IN \A t \in 1..maxc : Cardinality({j \in 1..Len(tbl) : tbl[j][2] >= t}) >= Cardinality({ids[i] : i \in {x \in 1..n : occ(x) >= t}})

HkFails(e) ==
  CASE e.h = "go_start" ->
         \* (C10 speaks about the record after a position command: exact at the first go behind it; at a further go the
         \* described game must still be in it - whether the engine's own replies have entered it as well is not the
         \* property's business)
         (IF s.skip \/ ~Has(e, "table") THEN {}
          ELSE IF s.gos = 1
               THEN (IF ~RecordMatches(s.base, e.table) THEN {<<"C10", "record-at-go", D(<<s.cmd, [j \in 1..Len(e.table) |-> e.table[j][2]]>>)>>} ELSE {})
               ELSE (IF ~RecordCovers(s.base, e.table) THEN {<<"C10", "record-lost-before-a-further-go", D(<<s.cmd, [j \in 1..Len(e.table) |-> e.table[j][2]]>>)>>} ELSE {}))
         \* ... and the same for the record the SEARCH THREAD says it was handed (srch_start, logged on entry of the search):
         \* "a position that has already occurred at least twice (in the game plus the current line)" needs the game's
         \* single occurrences too, not a digest of the record
         \cup (IF s.skip \/ ~Has(e, "stable") THEN {}
               ELSE IF s.gos = 1
                    THEN (IF ~RecordMatches(s.base, e.stable) THEN {<<"C10", "search-was-handed-another-record", D(<<s.cmd, [j \in 1..Len(e.stable) |-> e.stable[j][2]]>>)>>} ELSE {})
                    ELSE (IF ~RecordCovers(s.base, e.stable) THEN {<<"C10", "search-was-handed-another-record", D(<<s.cmd, [j \in 1..Len(e.stable) |-> e.stable[j][2]]>>)>>} ELSE {}))
         \* C09 inside the real command loop: the slice planned for THIS go (logged at GoAccept, placed right behind its go
         \* line) obeys the contract for the tokens of this go line alone and for the side to move of the board that is
         \* searched - whatever earlier go commands carried
         \cup (IF ~Has(e, "slice") \/ ~s.go.active \/ s.go.toks = <<>> THEN {}
               ELSE LET tc == ParseGo(s.go.toks)  stm == e.board.stm IN
                    IF ~SliceOK(MoverClock(tc, stm), MoverInc(tc, stm), Mtg(tc), e.slice)
                    THEN {<<"C09", "slice-at-go", D(<<s.go.line, stm, e.slice>>)>>} ELSE {})
    [] e.h = "srch_send" ->
         \* a send after the polling loop was left (or by the previous go's thread, whose channel is gone) is the benign
         \* race named SrchSendAfterClose in the design: it reaches nobody
         IF ~hs.active THEN {}
         ELSE LET root == Decode(hs.root)  m == <<e.board.d[1], e.board.d[2], Kind(e.board.d[3])>>
                  okFor(rt) == WellFormed(rt) /\ m \in Legal(rt) /\ SameAs(Apply(rt, m), e.board) IN
              IF ~WellFormed(root) \/ okFor(root) THEN {}
              ELSE IF hs.hasPrev /\ okFor(Decode(hs.prev)) THEN {}
              ELSE IF m \notin Legal(root) THEN {<<"C03", "search-sent-illegal-move", D(<<ToFen(root, 0, 1), m>>)>>}
              ELSE {<<"C03", "search-sent-wrong-board", D(<<ToFen(root, 0, 1), m>>)>>}
    [] e.h = "srch_print" ->
         \* Walleye.tla: SrchPrint follows SrchSend of the same improvement; after PollExit an answered search prints at most
         \* the one line it still owes (OrphanLastLine).  The k-th line of a search belongs to the k-th board it handed over.
         LET owedPrev == IF hs.hasPrev /\ Has(hs, "owedPrev") THEN hs.owedPrev ELSE 0
             Txt(b) == {MoveText(<<b.d[1], b.d[2], 0>>), MoveText(<<b.d[1], b.d[2], Kind(b.d[3])>>)}
         IN IF hs.active
            THEN IF ~WellFormed(Decode(hs.root)) THEN {}
                 ELSE IF hs.nprint < Len(hs.sent) /\ e.pv1 \in Txt(hs.sent[hs.nprint + 1]) THEN {}
                 ELSE IF owedPrev > 0 THEN {}
                 ELSE {<<"C07", "line-without-a-board-handed-over", D(<<e.seq, e.pv1>>)>>}
            ELSE IF owedPrev > 0 \/ ~hs.hasPrev THEN {}
                 ELSE {<<"C07", "late-line-not-owed", D(<<e.seq, e.pv1>>)>>}
    [] e.h = "io_recv" ->
         IF ~hs.active THEN {<<"C03", "recv-without-go", D(e.seq)>>}
         ELSE IF hs.nrecv >= Len(hs.sent) THEN {<<"C03", "received-before-sent", D(e.seq)>>}
         ELSE IF ~SameBoard(hs.sent[hs.nrecv + 1], e.board) THEN {<<"C03", "channel-not-fifo", D(e.seq)>>}
         ELSE {}
    [] e.h = "io_exit" ->
         IF ~hs.active THEN {<<"C03", "exit-without-go", D(e.seq)>>}
         ELSE (IF ~e.expired THEN {<<"C09", "loop-left-before-deadline", D(e.seq)>>} ELSE {})
              \cup (IF hs.nrecv = 0 THEN {<<"C03", "loop-left-without-board", D(e.seq)>>}
                    ELSE IF hs.nrecv > Len(hs.sent) THEN {}     \* more received than sent: reported at the receive
                    ELSE IF ~SameBoard(hs.sent[hs.nrecv], e.board) THEN {<<"C03", "answer-is-not-last-received", D(e.seq)>>} ELSE {})
    [] OTHER -> {}
HkStep(e) ==
  CASE e.h = "go_start" -> [active |-> TRUE, root |-> e.board, sent |-> <<>>, nrecv |-> 0, nprint |-> 0, hasPrev |-> hs.hasPrev,
                            prev |-> IF hs.hasPrev THEN hs.prev ELSE e.board,
                            owedPrev |-> IF hs.hasPrev /\ Has(hs, "owedPrev") THEN hs.owedPrev ELSE 0]
    [] e.h = "srch_print" ->
         LET Txt(b) == {MoveText(<<b.d[1], b.d[2], 0>>), MoveText(<<b.d[1], b.d[2], Kind(b.d[3])>>)} IN
         IF hs.active /\ hs.nprint < Len(hs.sent) /\ e.pv1 \in Txt(hs.sent[hs.nprint + 1]) THEN [hs EXCEPT !.nprint = @ + 1]
         ELSE IF hs.hasPrev /\ Has(hs, "owedPrev") /\ hs.owedPrev > 0 THEN [hs EXCEPT !.owedPrev = @ - 1]
         ELSE hs
    [] e.h = "srch_send" ->
         \* only sends of the current search enter the model's channel
         IF hs.active /\ WellFormed(Decode(hs.root))
            /\ LET m == <<e.board.d[1], e.board.d[2], Kind(e.board.d[3])>> IN m \in Legal(Decode(hs.root)) /\ SameAs(Apply(Decode(hs.root), m), e.board)
         THEN [hs EXCEPT !.sent = Append(@, e.board)] ELSE hs
    [] e.h = "io_recv" -> IF hs.active THEN [hs EXCEPT !.nrecv = @ + 1] ELSE hs
    \* after the loop is left the search thread may still send into the closed channel: those sends belong to no go
    [] e.h = "io_exit" -> IF hs.active THEN [active |-> FALSE, hasPrev |-> TRUE, prev |-> hs.root, owedPrev |-> Len(hs.sent) - hs.nprint] ELSE hs
    [] OTHER -> hs

Fails(e) ==
  IF e.ev = "hk" THEN HkFails(e) ELSE
  IF s.skip /\ e.ev \in {"out", "timeout", "closed", "posdump"} THEN {} ELSE
  CASE e.ev = "in" -> InFails(e)
    [] e.ev = "out" -> OutFails(e)
    [] e.ev = "timeout" -> TimeoutFails(e)
    [] e.ev = "closed" -> TimeoutFails(e)      \* the engine's stdout ended while an answer was awaited
    [] e.ev = "exit" -> ExitFails(e)
    [] e.ev = "slice" -> SliceFails(e)
    [] e.ev = "posdump" -> PosDumpFails(e)
    [] OTHER -> {}

Step(e) ==
  CASE e.ev = "reset" -> Fresh
    [] e.ev = "in" -> InStep(e)
    [] e.ev = "out" -> OutStep(e)
    [] e.ev = "timeout" -> [s EXCEPT !.go = NoGo, !.ready = 0]
    [] e.ev = "closed" -> [s EXCEPT !.go = NoGo, !.ready = 0]
    [] e.ev = "eofin" -> [s EXCEPT !.eof = TRUE, !.tend = e.t]
    [] e.ev = "exit" -> [s EXCEPT !.dead = TRUE]
    [] OTHER -> s

ZeroCnt == [resets |-> 0, ins |-> 0, gos |-> 0, bestmoves |-> 0, infos |-> 0, readyoks |-> 0, exits |-> 0, slices |-> 0,
            posdumps |-> 0, formula_same |-> 0, formula_other |-> 0, terminal_gos |-> 0, probes |-> 0, hook_events |-> 0, hook_recvs |-> 0, hook_prints |-> 0, foreign_lines |-> 0]
Count(c, e) ==
  CASE e.ev = "reset" -> [c EXCEPT !.resets = @ + 1]
    [] e.ev = "in" -> [c EXCEPT !.ins = @ + 1, !.gos = @ + (IF Has(e, "go") THEN 1 ELSE 0),
                                !.terminal_gos = @ + (IF Has(e, "go") /\ Legal(s.pos) = {} THEN 1 ELSE 0),
                                !.probes = @ + (IF Has(e, "probe") THEN 1 ELSE 0)]
    [] e.ev = "out" -> [c EXCEPT !.bestmoves = @ + (IF e.k = "bestmove" THEN 1 ELSE 0), !.infos = @ + (IF e.k = "info" THEN 1 ELSE 0),
                                 !.foreign_lines = @ + (IF e.k = "info" /\ Foreign(e) THEN 1 ELSE 0),
                                 !.readyoks = @ + (IF e.k = "readyok" THEN 1 ELSE 0)]
    [] e.ev = "exit" -> [c EXCEPT !.exits = @ + 1]
    [] e.ev = "slice" -> LET tc == ParseGo(e.toks)
                             sw == IF CodeSliceOf(tc.wtime, tc.winc, Mtg(tc), "fixed") = e.slice_w THEN 1 ELSE 0
                             sb == IF CodeSliceOf(tc.btime, tc.binc, Mtg(tc), "fixed") = e.slice_b THEN 1 ELSE 0 IN
                         [c EXCEPT !.slices = @ + 1, !.formula_same = @ + sw + sb, !.formula_other = @ + 2 - sw - sb]
    [] e.ev = "posdump" -> [c EXCEPT !.posdumps = @ + 1]
    [] e.ev = "hk" -> [c EXCEPT !.hook_events = @ + 1, !.hook_recvs = @ + (IF e.h = "io_recv" THEN 1 ELSE 0),
                              !.hook_prints = @ + (IF e.h = "srch_print" THEN 1 ELSE 0)]
    [] OTHER -> c

Init == l = 1 /\ bad = {} /\ cnt = ZeroCnt /\ s = Fresh /\ memo = <<>> /\ hs = NoHs
Next == /\ l <= Len(Rec)
        /\ l' = l + 1
        /\ bad' = bad \cup {<<f[1], l, f[2], f[3]>> : f \in Fails(Rec[l])}
        /\ cnt' = Count(cnt, Rec[l])
        /\ memo' = MemoStep(Rec[l])
        /\ s' = Step(Rec[l])
        /\ hs' = IF Rec[l].ev = "hk" THEN HkStep(Rec[l]) ELSE IF Rec[l].ev = "reset" THEN NoHs ELSE hs
Spec == Init /\ [][Next]_vars

Report == l = Len(Rec) + 1 =>
            ndJsonSerialize(IOEnv.OUT, <<[cnt |-> cnt, lines |-> Len(Rec), bad |-> SetToSeq(bad)]>>)
Accepted == TLCGet("stats").diameter - 1 = Len(Rec)
=============================================================================
