SPECIFICATION Spec
CONSTANTS
  RepGE = TRUE
  RootGuard = TRUE
  MaxPly = 3
  PlyGuard = TRUE
INVARIANT InvPrefix
INVARIANT InvSends
INVARIANT InvRep
INVARIANT InvScores
INVARIANT InvNoPanic
CHECK_DEADLOCK FALSE
