-------------------------------- MODULE Perft --------------------------------
(***************************************************************************)
(* Self-check of the oracle: Chess!Legal / Chess!Apply must reproduce the  *)
(* published perft totals of the six standard positions (numbers neither   *)
(* written by me nor produced by the engine).  One JVM per shard; a shard  *)
(* sums the sub-trees of the root moves assigned to it.                    *)
(***************************************************************************)
EXTENDS Chess, Json, IOUtils
In == JsonDeserialize(IOEnv.PERFT)
Root == Decode(In.pos)

RECURSIVE PerftN(_, _)
PerftN(pos, d) ==
  IF d = 0 THEN 1 ELSE
  LET ms == Legal(pos) IN
  IF d = 1 THEN Cardinality(ms) ELSE
  LET RECURSIVE Sum(_)
      Sum(S) == IF S = {} THEN 0 ELSE LET m == CHOOSE x \in S : TRUE IN PerftN(Apply(pos, m), d - 1) + Sum(S \ {m})
  IN Sum(ms)

Mine == {m \in Legal(Root) : (7 * m[1] + 3 * m[2] + m[3]) % In.of = In.shard}
RECURSIVE SumMine(_)
SumMine(S) == IF S = {} THEN 0 ELSE LET m == CHOOSE x \in S : TRUE IN PerftN(Apply(Root, m), In.depth - 1) + SumMine(S \ {m})

\* the python side only converts FEN text to the integer encoding; the specification re-renders it
ASSUME ToFen(Root, In.half, In.full) = In.fen
ASSUME WellFormed(Root)
ASSUME PrintT(<<"PERFT", In.name, In.depth, In.shard, SumMine(Mine)>>)
VARIABLE x
Init == x = 0
Next == x' = x
=============================================================================
