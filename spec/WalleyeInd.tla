----------------------------- MODULE WalleyeInd -----------------------------
(***************************************************************************)
(* Inductive invariant of Walleye.tla for Apalache (symbolic, no bound on  *)
(* the number of commands, moves, slices or sends):                        *)
(*     IndInit => IndInv   and   IndInv /\ [Next]_vars => IndInv'          *)
(* IndInv implies the safety properties AnswerFitsPosition, ChannelFresh,  *)
(* NullMoveOnlyWhenOver and NoEarlyAnswer of the repaired configuration    *)
(* (all Bug* = FALSE).                                                     *)
(*   apalache-mc check --cinit=CInit --init=IndInit --inv=IndInv --length=1 WalleyeInd.tla *)
(*   apalache-mc check --cinit=CInit --init=Init --inv=IndInv --length=0 WalleyeInd.tla    *)
(***************************************************************************)
EXTENDS Walleye, Apalache

CInit == /\ MaxCmds \in Nat /\ MaxMoves \in Nat /\ MaxSlice \in Nat /\ MaxSends \in Nat
         /\ BugNoAnswerWhenNoMoves = FALSE /\ BugEofSpins = FALSE /\ BugSharedChannel = FALSE
         /\ BugFallbackBeforeLoop = FALSE /\ BugStaleGameOver = FALSE /\ BugGameOverLatch = FALSE /\ BugGivesUpOnGarbage = FALSE

IndInv ==
  /\ io \in {"read", "poll", "dead"}
  /\ srch \in {"none", "run", "done"}
  /\ pending \in {"none", "go"}
  /\ stage \in {"idle", "accepted", "sent"}
  \* an admitted improvement is a root move of the search that admitted it
  /\ (io = "poll" /\ stage = "accepted" => cur >= 1 /\ cur <= root.n)
  /\ left >= 0 /\ sent >= 0 /\ nread >= 0
  /\ board.n >= 0 /\ root.n >= 0
  \* while a go is being served the search works on the board the go was given in
  /\ (io = "poll" => root = board /\ pending = "go" /\ srch \in {"run", "done"})
  \* everything in the channel and the board held by the polling loop belong to that search
  /\ (io = "poll" => \A i \in DOMAIN chan : chan[i].pos = root.id /\ chan[i].mv >= 1 /\ chan[i].mv <= root.n)
  /\ (io = "poll" /\ best # NoBest => best.pos = root.id /\ best.mv >= 1 /\ best.mv <= root.n)
  \* every answer printed so far names a root move, or is the null move of a finished game
  /\ (\A i \in DOMAIN out : out[i].t = "bestmove" => out[i].b >= 0)
  \* ids are fresh
  /\ board.id < nextId /\ root.id < nextId /\ board.id >= 0 /\ root.id >= 0

\* any state satisfying the invariant (bounded generators for the sequences)
IndInit ==
  /\ nread = Gen(1) /\ io = Gen(1) /\ board = Gen(1) /\ table = Gen(3) /\ hid = Gen(1) /\ left = Gen(1)
  /\ chan = Gen(4) /\ best = Gen(1) /\ srch = Gen(1) /\ root = Gen(1) /\ sent = Gen(1) /\ started = Gen(1)
  /\ pending = Gen(1) /\ out = Gen(3) /\ nextId = Gen(1) /\ ngo = Gen(1) /\ owed = Gen(2) /\ stage = Gen(1) /\ cur = Gen(1)
  /\ IndInv

\* what the invariant is for
Safety == AnswerFitsPosition /\ ChannelFresh /\ NullMoveOnlyWhenOver

\* sanity (expected to be VIOLATED): IndInit is satisfiable with a go in service
NotServing == io # "poll"
\* the same obligation for the one-channel-per-session variant (expected to be VIOLATED)
CInitShared == /\ MaxCmds \in Nat /\ MaxMoves \in Nat /\ MaxSlice \in Nat /\ MaxSends \in Nat
               /\ BugNoAnswerWhenNoMoves = FALSE /\ BugEofSpins = FALSE /\ BugSharedChannel = TRUE
               /\ BugFallbackBeforeLoop = FALSE /\ BugStaleGameOver = FALSE /\ BugGameOverLatch = FALSE /\ BugGivesUpOnGarbage = FALSE
=============================================================================
