------------------------------ MODULE ChessGame ------------------------------
(***************************************************************************)
(* Positions as a state machine, with the engine's two move makers, its    *)
(* incrementally maintained hash and its repetition record written as the  *)
(* code's own step sequences (one operator per helper of the code).        *)
(*                                                                         *)
(* A board object o mirrors BoardState:                                    *)
(*   b, stm, cr, ep   the position                                         *)
(*   wk, bk           cached king squares                                  *)
(*   d                descriptor <<from, to, promo kind>> (last_move,      *)
(*                    pawn_promotion) - the text printed as bestmove       *)
(*   key              the hash, abstracted as the set of features XOR-ed   *)
(*                    in (Chess!Features)                                  *)
(*                                                                         *)
(* TLC checks on every explored object and every generated successor:      *)
(*   generator = rules, successor = Apply, king cache, descriptor,         *)
(*   key = Features(position), text applier = generator, capture-only      *)
(*   generator = legal captures, repetition record = multiset of           *)
(*   identities over the history.                                          *)
(*                                                                         *)
(* The constants named Bug* switch on the behaviour of the pinned commit   *)
(* (before the fix: commits); with all FALSE the module describes the      *)
(* repaired code.  MC_Game_bug*.cfg are expected to FAIL (spec self-test). *)
(***************************************************************************)
EXTENDS Chess

CONSTANTS BugKingTestIgnoresProbe,   \* C01: is_check_cords compared the two kings with each other
          BugCastleKeepsPromotion,   \* C02: castling / en-passant successors kept pawn_promotion
          BugDoubleStepKeepsOldEp,   \* C05: double step did not XOR the old en-passant file out
          BugCapsModeSkipsFinalise   \* C13: captures-only mode neither promoted nor cleared ep

PosOf(o) == [b |-> o.b, stm |-> o.stm, cr |-> o.cr, ep |-> o.ep]
Tog(key, f) == SymDiff(key, {f})

MkObj(pos) == [b |-> pos.b, stm |-> pos.stm, cr |-> pos.cr, ep |-> pos.ep,
               wk |-> KingSq(pos.b, 0), bk |-> KingSq(pos.b, 1), d |-> <<0, 0, 0>>, key |-> Features(pos)]

\* ---- helpers of board.rs ----
SwapColor(o) == [o EXCEPT !.stm = 1 - @, !.key = Tog(@, 769)]
TakeAwayRight(o, i) == IF i \in o.cr THEN [o EXCEPT !.cr = @ \ {i}, !.key = Tog(@, 769 + i)] ELSE o
UnsetEp(o) == IF o.ep # 0 THEN [o EXCEPT !.ep = 0, !.key = Tog(@, 773 + File(o.ep))] ELSE o
MovePiece(o, s, t) ==
  IF o.b[s] = 0 THEN o
  ELSE LET k1 == IF o.b[t] # 0 THEN Tog(o.key, PcFeature(o.b[t], t)) ELSE o.key
           k2 == Tog(Tog(k1, PcFeature(o.b[s], s)), PcFeature(o.b[s], t))
       IN [o EXCEPT !.b = [@ EXCEPT ![s] = 0, ![t] = o.b[s]], !.key = k2]

\* ---- is_check_cords: reverse attack test from a square, king test via the cached king squares ----
AttackedByCache(o, s, c) ==      \* is s attacked by colour c, as the code computes it
  \/ \E t \in KnightT[s] : o.b[t] = Pc(c, N)
  \/ \E t \in PawnAtk[c][s] : o.b[t] = Pc(c, P)
  \/ \E d \in 1..4 : LET x == FirstPiece(o.b, Ray[s][d], 1) IN x = Pc(c, R) \/ x = Pc(c, Q)
  \/ \E d \in 5..8 : LET x == FirstPiece(o.b, Ray[s][d], 1) IN x = Pc(c, B) \/ x = Pc(c, Q)
  \/ LET ek == IF c = 0 THEN o.wk ELSE o.bk
         probe == IF BugKingTestIgnoresProbe THEN (IF c = 0 THEN o.bk ELSE o.wk) ELSE s
     IN ek \in KingT[probe] \/ ek = probe
IsCheckCache(o, c) == AttackedByCache(o, IF c = 0 THEN o.wk ELSE o.bk, 1 - c)

\* ---- promote_pawn: four successors ----
PromoteFan(o, c, s, t) ==
  {LET o1 == UnsetEp(o) IN
   [o1 EXCEPT !.b = [@ EXCEPT ![t] = Pc(c, k)], !.d = <<s, t, k>>,
              !.key = Tog(Tog(@, PcFeature(Pc(c, k), t)), PcFeature(Pc(c, P), t))]
   : k \in {Q, N, B, R}}

\* ---- generate_moves_for_piece: one pseudo-legal target t of the piece on s ----
GenNormal(o, s, t, mode) ==
  LET p == o.b[s]  c == Col(p)  k == Kind(p)
      n1 == SwapColor([o EXCEPT !.d = <<@[1], @[2], 0>>])
      n2 == IF k = K THEN (IF c = 0 THEN [n1 EXCEPT !.wk = t] ELSE [n1 EXCEPT !.bk = t]) ELSE n1
      n3 == [MovePiece(n2, s, t) EXCEPT !.d = <<s, t, 0>>]
  IN IF IsCheckCache(n3, c) THEN {}
     ELSE
     LET n4 == IF k = K
               THEN (IF c = 0 THEN TakeAwayRight(TakeAwayRight(n3, 1), 2) ELSE TakeAwayRight(TakeAwayRight(n3, 3), 4))
               ELSE IF s = 8 THEN TakeAwayRight(n3, 1)
               ELSE IF s = 1 THEN TakeAwayRight(n3, 2)
               ELSE IF s = 57 THEN TakeAwayRight(n3, 4)
               ELSE IF s = 64 THEN TakeAwayRight(n3, 3)
               ELSE n3
         n5 == IF t = 8 THEN TakeAwayRight(n4, 1)
               ELSE IF t = 1 THEN TakeAwayRight(n4, 2)
               ELSE IF t = 57 THEN TakeAwayRight(n4, 4)
               ELSE IF t = 64 THEN TakeAwayRight(n4, 3)
               ELSE n4
         lastRank == IF c = 0 THEN 8 ELSE 1
     IN IF mode = "all"
        THEN LET n6 == IF k = P /\ (Rank(t) - Rank(s) = 2 \/ Rank(s) - Rank(t) = 2)
                       THEN LET tgt == (s + t) \div 2
                                base == IF BugDoubleStepKeepsOldEp THEN n5 ELSE UnsetEp(n5)
                            IN [base EXCEPT !.ep = tgt, !.key = Tog(@, 773 + File(tgt))]
                       ELSE UnsetEp(n5)
             IN IF k = P /\ Rank(t) = lastRank THEN PromoteFan(n6, c, s, t) ELSE {n6}
        ELSE IF BugCapsModeSkipsFinalise THEN {n5}
             ELSE LET n6 == UnsetEp(n5) IN
                  IF k = P /\ Rank(t) = lastRank THEN PromoteFan(n6, c, s, t) ELSE {n6}

\* pseudo-legal targets as get_moves produces them (en passant and castling excluded)
PseudoTargets(o, s, mode) ==
  LET p == o.b[s]  c == Col(p)  k == Kind(p) IN
  IF k = P
  THEN LET dr == IF c = 0 THEN 1 ELSE -1
           f == File(s)  r == Rank(s)
           startR == IF c = 0 THEN 2 ELSE 7
           caps == {Sq(f + df, r + dr) : df \in {e \in {-1, 1} : OnBoard(f + e, r + dr) /\ Col(o.b[Sq(f + e, r + dr)]) = 1 - c}}
           pushes == IF mode = "all" /\ OnBoard(f, r + dr) /\ o.b[Sq(f, r + dr)] = 0
                     THEN {Sq(f, r + dr)} \cup (IF r = startR /\ o.b[Sq(f, r + 2 * dr)] = 0 THEN {Sq(f, r + 2 * dr)} ELSE {})
                     ELSE {}
       IN caps \cup pushes
  ELSE IF mode = "all" THEN Targets(o.b, s) ELSE {t \in Targets(o.b, s) : o.b[t] # 0}

\* ---- en passant branch ----
GenEp(o, s) ==
  LET p == o.b[s]  c == Col(p)
      okRow == IF c = 0 THEN Rank(s) = 5 ELSE Rank(s) = 4
      dr == IF c = 0 THEN 1 ELSE -1
      cands == {Sq(File(s) + df, Rank(s) + dr) : df \in {e \in {-1, 1} : OnBoard(File(s) + e, Rank(s) + dr)}}
  IN IF o.ep = 0 \/ Kind(p) # P \/ ~okRow \/ o.ep \notin cands THEN {}
     ELSE LET t == o.ep
              n0 == IF BugCastleKeepsPromotion THEN o ELSE [o EXCEPT !.d = <<@[1], @[2], 0>>]
              n1 == [n0 EXCEPT !.d = <<s, t, @[3]>>]
              n2 == UnsetEp(SwapColor(n1))
              n3 == MovePiece(n2, s, t)
              v == IF c = 0 THEN t - 8 ELSE t + 8
              n4 == [n3 EXCEPT !.b = [@ EXCEPT ![v] = 0], !.key = Tog(@, PcFeature(Pc(1 - c, P), v))]
          IN IF IsCheckCache(n4, c) THEN {} ELSE {n4}

\* ---- castling ----
CanCastle(o, c, side) ==   \* side 1 = king side, 2 = queen side
  LET e == IF c = 0 THEN 5 ELSE 61
      right == IF c = 0 THEN side ELSE side + 2
  IN /\ right \in o.cr
     /\ IF side = 1 THEN o.b[e + 1] = 0 /\ o.b[e + 2] = 0 ELSE o.b[e - 1] = 0 /\ o.b[e - 2] = 0 /\ o.b[e - 3] = 0
     /\ ~IsCheckCache(o, c)
     /\ IF side = 1 THEN ~AttackedByCache(o, e + 1, 1 - c) /\ ~AttackedByCache(o, e + 2, 1 - c)
        ELSE ~AttackedByCache(o, e - 1, 1 - c) /\ ~AttackedByCache(o, e - 2, 1 - c)
GenCastle(o) ==
  LET c == o.stm
      e == IF c = 0 THEN 5 ELSE 61
      one(side) ==
        LET kt == IF side = 1 THEN e + 2 ELSE e - 2
            rf == IF side = 1 THEN e + 3 ELSE e - 4
            rt == IF side = 1 THEN e + 1 ELSE e - 1
            n0 == IF BugCastleKeepsPromotion THEN o ELSE [o EXCEPT !.d = <<@[1], @[2], 0>>]
            n1 == UnsetEp(SwapColor(n0))
            n2 == IF c = 0 THEN TakeAwayRight(TakeAwayRight(n1, 1), 2) ELSE TakeAwayRight(TakeAwayRight(n1, 3), 4)
            kfrom == IF c = 0 THEN o.wk ELSE o.bk
            n3 == IF c = 0 THEN [n2 EXCEPT !.wk = kt] ELSE [n2 EXCEPT !.bk = kt]
            n4 == [n3 EXCEPT !.d = <<e, kt, @[3]>>]
        IN MovePiece(MovePiece(n4, kfrom, kt), rf, rt)
  IN (IF CanCastle(o, c, 1) THEN {one(1)} ELSE {}) \cup (IF CanCastle(o, c, 2) THEN {one(2)} ELSE {})

\* ---- generate_moves ----
GenSuccs(o, mode) ==
  LET own == {s \in 1..64 : Col(o.b[s]) = o.stm} IN
  UNION {UNION {GenNormal(o, s, t, mode) : t \in PseudoTargets(o, s, mode)} \cup GenEp(o, s) : s \in own}
  \cup (IF mode = "all" THEN GenCastle(o) ELSE {})

\* ---- uci::make_move: the text applier (text already split into from, to, promotion letter) ----
TextApply(o, m) ==
  LET s == m[1]  t == m[2]  p == o.b[s]  c == Col(p)  k == Kind(p)
      n1 == UnsetEp(o)
      n2 == IF k = K
            THEN (IF c = 0 THEN TakeAwayRight(TakeAwayRight([n1 EXCEPT !.wk = t], 2), 1)
                           ELSE TakeAwayRight(TakeAwayRight([n1 EXCEPT !.bk = t], 4), 3))
            ELSE IF k = P
            THEN LET a == IF Rank(s) - Rank(t) = 2 \/ Rank(t) - Rank(s) = 2
                          THEN LET tgt == IF c = 0 THEN s + 8 ELSE s - 8 IN [n1 EXCEPT !.ep = tgt, !.key = Tog(@, 773 + File(tgt))]
                          ELSE n1
                 IN IF File(s) # File(t) /\ a.b[t] = 0
                    THEN LET v == Sq(File(t), Rank(s)) IN
                         [a EXCEPT !.b = [@ EXCEPT ![v] = 0], !.key = Tog(@, PcFeature(Pc(1 - o.stm, P), v))]
                    ELSE a
            ELSE n1
      corner(x) == x = s \/ x = t
      n3 == IF corner(57) THEN TakeAwayRight(n2, 4) ELSE n2
      n4 == IF corner(64) THEN TakeAwayRight(n3, 3) ELSE n3
      n5 == IF corner(1) THEN TakeAwayRight(n4, 2) ELSE n4
      n6 == IF corner(8) THEN TakeAwayRight(n5, 1) ELSE n5
      n7 == MovePiece(n6, s, t)
      n8 == IF m[3] # 0
            THEN [n7 EXCEPT !.b = [@ EXCEPT ![t] = Pc(o.stm, m[3])],
                            !.key = Tog(Tog(@, PcFeature(Pc(o.stm, P), t)), PcFeature(Pc(o.stm, m[3]), t))]
            ELSE n7
      n9 == IF s = 5 /\ t = 7 /\ n8.b[t] = Pc(0, K) THEN MovePiece(n8, 8, 6)
            ELSE IF s = 5 /\ t = 3 /\ n8.b[t] = Pc(0, K) THEN MovePiece(n8, 1, 4)
            ELSE IF s = 61 /\ t = 63 /\ n8.b[t] = Pc(1, K) THEN MovePiece(n8, 64, 62)
            ELSE IF s = 61 /\ t = 59 /\ n8.b[t] = Pc(1, K) THEN MovePiece(n8, 57, 60)
            ELSE n8
  IN SwapColor(n9)

(***************************************************************************)
(* The state machine: a game played through the generator's own successor  *)
(* objects, with the repetition record kept as play_out_position keeps it  *)
(* (keyed by the hash).                                                    *)
(***************************************************************************)
CONSTANTS Seeds, MaxPly
VARIABLES o, hist, rep
vars == <<o, hist, rep>>

Bump(r, k) == IF k \in DOMAIN r THEN [r EXCEPT ![k] = @ + 1] ELSE r @@ (k :> 1)

Init == \E p \in Seeds : o = MkObj(p) /\ hist = <<p>> /\ rep = (Features(p) :> 1)
Next == /\ Len(hist) <= MaxPly
        /\ \E x \in GenSuccs(o, "all") :
             /\ o' = x
             /\ hist' = Append(hist, PosOf(x))
             /\ rep' = Bump(rep, x.key)
Spec == Init /\ [][Next]_vars

\* fingerprint only the object: history variables do not add behaviour
View == o

DescSet(S) == {x.d : x \in S}
ObjOk(x, pos, m) ==
  LET a == Apply(pos, m) IN
  /\ PosOf(x) = a
  /\ x.wk = KingSq(a.b, 0) /\ x.bk = KingSq(a.b, 1)
  /\ x.key = Features(a)

\* C01 (model level): the generator yields exactly the legal moves, once each
GenIsLegal == LET S == GenSuccs(o, "all") IN
              DescSet(S) = Legal(PosOf(o)) /\ Cardinality(S) = Cardinality(Legal(PosOf(o)))
\* C02 + C05: every successor is Apply, king cache and descriptor right, key = Features
SuccIsApply == \A x \in GenSuccs(o, "all") : x.d \in Legal(PosOf(o)) => ObjOk(x, PosOf(o), x.d)
\* C04: text applier = generator on every generated move (everything but the descriptor)
TextIsGen == \A x \in GenSuccs(o, "all") :
               LET y == TextApply(o, x.d) IN
               /\ PosOf(y) = PosOf(x) /\ y.wk = x.wk /\ y.bk = x.bk /\ y.key = x.key
\* C13: capture-only generation = legal captures, successors right
CapsIsLegal == LET S == GenSuccs(o, "caps") IN
               /\ DescSet(S) = LegalCaptures(PosOf(o)) /\ Cardinality(S) = Cardinality(LegalCaptures(PosOf(o)))
               /\ \A x \in S : x.d \in Legal(PosOf(o)) => ObjOk(x, PosOf(o), x.d)
\* the conjunction of the above with the generator evaluated once (used by the non-bug configurations for speed)
RulesInv ==
  LET pos == PosOf(o)
      S == GenSuccs(o, "all")
      C == GenSuccs(o, "caps")
      L == Legal(pos)
      LC == {m \in L : IsCapture(pos, m)}
  IN /\ DescSet(S) = L /\ Cardinality(S) = Cardinality(L)
     /\ \A x \in S : /\ ObjOk(x, pos, x.d)
                      /\ LET y == TextApply(o, x.d) IN
                         PosOf(y) = PosOf(x) /\ y.wk = x.wk /\ y.bk = x.bk /\ y.key = x.key
     /\ DescSet(C) = LC /\ Cardinality(C) = Cardinality(LC)
     /\ \A x \in C : ObjOk(x, pos, x.d)
\* C05: the object's own key
KeyIsFeatures == o.key = Features(PosOf(o))
CacheOk == o.wk = KingSq(o.b, 0) /\ o.bk = KingSq(o.b, 1)
\* closure of the precondition
WellFormedClosed == WellFormed(PosOf(o))
\* C10: the record is the multiset of identities over the history (keyed by the hash)
RepExact == \A i \in 1..Len(hist) :
              rep[Features(hist[i])] = Cardinality({j \in 1..Len(hist) : Identity(hist[j]) = Identity(hist[i])})
=============================================================================
