SPECIFICATION Spec
CONSTANTS
  BugKingTestIgnoresProbe = FALSE
  BugCastleKeepsPromotion = FALSE
  BugDoubleStepKeepsOldEp = FALSE
  BugCapsModeSkipsFinalise = FALSE
  Seeds <- SeedsC
  MaxPly <- MaxPlyC
VIEW View
INVARIANT WellFormedClosed
INVARIANT CacheOk
INVARIANT KeyIsFeatures
INVARIANT RulesInv
INVARIANT RepExact
CHECK_DEADLOCK FALSE
