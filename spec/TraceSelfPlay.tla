--------------------------- MODULE TraceSelfPlay ---------------------------
(***************************************************************************)
(* The self-play front end (`walleye -P -S --fen F`, engine.rs             *)
(* play_game_against_self), outside the listed properties: part of the     *)
(* specification's coverage of the system, validated as a trace.           *)
(*                                                                         *)
(* The loop as the code has it, one round per move (100 rounds of 1 s):    *)
(*   Spawn     a fresh channel and a search thread on a CLONE of the board *)
(*             and of an EMPTY repetition record (named deviation: the     *)
(*             record is never fed in this mode, so repetitions are not    *)
(*             seen; nor are the fifty-move rule or dead positions)        *)
(*   Poll      until the second is over: every board received replaces the *)
(*             current one (no `first move` guard here: with nothing       *)
(*             received the board stays and the round is a pass)           *)
(*   Show      the board is printed                                        *)
(* Observable: the sequence of printed boards (placement only).  Allowed   *)
(* steps of that sequence:                                                 *)
(*   Move      the next board is the placement after a legal move of the   *)
(*             side to move (the position - rights, en-passant target -    *)
(*             is tracked with Chess!Apply)                                *)
(*   Over      the game is over (no legal move): the board is repeated     *)
(*   Pass      nothing arrived inside the second (counted; the search      *)
(*             sends its first board within milliseconds, so a pass in a   *)
(*             live position is reported)                                  *)
(* The first printed board is the start position.                          *)
(***************************************************************************)
EXTENDS Chess, Json, IOUtils, TLCExt, SequencesExt

Rec == ndJsonDeserialize(IOEnv.TRACE)
D(x) == ToString(x)

VARIABLES l, bad, cnt, pos
vars == <<l, bad, cnt, pos>>

None == [b |-> [s \in 1..64 |-> 0], stm |-> 0, cr |-> {}, ep |-> 0]
Succs(p, r) == {m \in Legal(p) : EncodeR(Apply(p, m).b) = r}

Fails(e) ==
  CASE e.ev = "start" -> IF ~WellFormed(Decode(e.start)) THEN {<<"TOOL", "start-not-well-formed", D(e.fen)>>} ELSE {}
    [] e.ev = "board" ->
         IF e.first THEN (IF e.r # EncodeR(pos.b) THEN {<<"SELFPLAY", "first-board-is-not-the-start-position", D(e.r)>>} ELSE {})
         ELSE IF e.r = EncodeR(pos.b)
              THEN (IF Legal(pos) # {} THEN {<<"SELFPLAY", "pass-in-a-live-position", D(ToFen(pos, 0, 1))>>} ELSE {})
              ELSE IF Succs(pos, e.r) = {} THEN {<<"SELFPLAY", "board-not-reached-by-a-legal-move", D(<<ToFen(pos, 0, 1), e.r>>)>>} ELSE {}
    [] OTHER -> {}

Step(e) ==
  CASE e.ev = "start" -> Decode(e.start)
    [] e.ev = "board" /\ ~e.first /\ e.r # EncodeR(pos.b) /\ Succs(pos, e.r) # {} -> Apply(pos, CHOOSE m \in Succs(pos, e.r) : TRUE)
    \* after an impossible board the tracking restarts from it (side to move flipped, no rights): later steps stay judged
    [] e.ev = "board" /\ ~e.first /\ e.r # EncodeR(pos.b) -> [b |-> DecodeB(e.r), stm |-> 1 - pos.stm, cr |-> {}, ep |-> 0]
    [] OTHER -> pos

ZeroCnt == [games |-> 0, boards |-> 0, moves |-> 0, over |-> 0, mates |-> 0]
Count(c, e) ==
  CASE e.ev = "start" -> [c EXCEPT !.games = @ + 1]
    [] e.ev = "board" -> [c EXCEPT !.boards = @ + 1,
                                   !.moves = @ + (IF ~e.first /\ e.r # EncodeR(pos.b) THEN 1 ELSE 0),
                                   !.over = @ + (IF ~e.first /\ e.r = EncodeR(pos.b) /\ Legal(pos) = {} THEN 1 ELSE 0),
                                   !.mates = @ + (IF ~e.first /\ e.r # EncodeR(pos.b) /\ Succs(pos, e.r) # {}
                                                     /\ LET q == Apply(pos, CHOOSE m \in Succs(pos, e.r) : TRUE) IN Legal(q) = {} /\ InCheck(q.b, q.stm)
                                                  THEN 1 ELSE 0)]
    [] OTHER -> c

Init == l = 1 /\ bad = {} /\ cnt = ZeroCnt /\ pos = None
Next == /\ l <= Len(Rec)
        /\ l' = l + 1
        /\ bad' = bad \cup {<<f[1], l, f[2], f[3]>> : f \in Fails(Rec[l])}
        /\ cnt' = Count(cnt, Rec[l])
        /\ pos' = Step(Rec[l])
Spec == Init /\ [][Next]_vars

Report == l = Len(Rec) + 1 =>
            ndJsonSerialize(IOEnv.OUT, <<[cnt |-> cnt, lines |-> Len(Rec), bad |-> SetToSeq(bad)]>>)
Accepted == TLCGet("stats").diameter - 1 = Len(Rec)
=============================================================================
