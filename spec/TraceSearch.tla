----------------------------- MODULE TraceSearch -----------------------------
(***************************************************************************)
(* Trace validation of the real search (engine::get_best_move) run under   *)
(* the virtual clock of the verification hooks.                            *)
(*                                                                         *)
(* sfull  the reference run of a scenario (position command): root state,  *)
(*        repetition record, every info line (with the clock-query index   *)
(*        at which it was printed) and every board sent, up to the end of  *)
(*        iteration D.                                                     *)
(* srun   the same search with the clock expiring at query k.              *)
(* sallow the same search handed another allowance (virtual expiry far     *)
(*        out): reported lines and boards prefix-related to the reference. *)
(* stree  the full game tree of a scenario to depth D as the engine's own  *)
(*        generator / evaluator see it, plus the reference run; the value  *)
(*        of the search is re-derived with Search!Ref (the property's own  *)
(*        definition).                                                     *)
(*                                                                         *)
(* Verdict registers as in TraceRules: a failing conjunct is recorded      *)
(* under its property and validation continues.                            *)
(***************************************************************************)
EXTENDS Chess, Search, Json, IOUtils, TLCExt, SequencesExt

Rec == ndJsonDeserialize(IOEnv.TRACE)
MaxMateN == atoi(IOEnv.MAXMATE)      \* mate claims are re-derived on the rules up to this many moves

VARIABLES l, bad, cnt, ctx
vars == <<l, bad, cnt, ctx>>
D(x) == ToString(x)
Has(e, f) == f \in DOMAIN e

SameAs(p, e) == /\ EncodeR(p.b) = e.r /\ p.stm = e.stm /\ p.ep = e.ep /\ CrInt(p.cr) = e.cr
KingsOk(p, e) == e.wk = KingSq(p.b, 0) /\ e.bk = KingSq(p.b, 1)
DescOf(s) == <<s.d[1], s.d[2], Kind(s.d[3])>>

\* what a reader sees of an info line: depth, nodes, score text, pv (the clock index q is harness bookkeeping)
Seen(i) == IF i.ok THEN <<i.depth, i.nodes, i.kind, i.val, i.pv>> ELSE <<i.raw>>
SeenSeq(infos) == [j \in 1..Len(infos) |-> Seen(infos[j])]
SendSeq(sends) == [j \in 1..Len(sends) |-> <<sends[j].s.r, sends[j].s.stm, sends[j].s.cr, sends[j].s.ep, sends[j].s.d>>]
SRank(i) == ScoreRank(i.kind, i.val)
LastOfDepth(infos, d) == LET idx == {j \in 1..Len(infos) : infos[j].ok /\ infos[j].depth = d} IN
                         IF idx = {} THEN 0 ELSE CHOOSE j \in idx : \A j2 \in idx : j2 <= j
Completed(infos, d) == \E j \in 1..Len(infos) : infos[j].ok /\ infos[j].depth > d
\* index of the last board handed over not later than clock query q (0 = none)
LastSentUpTo(sends, q) == LET upto == {i \in 1..Len(sends) : sends[i].q <= q} IN
                          IF upto = {} THEN 0 ELSE CHOOSE i \in upto : \A j \in upto : j <= i

(***************************************************************************)
(* C18: shape and bounds of the info lines of one run.                     *)
(***************************************************************************)
\* The engine keeps its principal variation as (from, to) pairs, so a promotion appears in the pv without its
\* letter; the property asks for the first pv move to be a legal move of the position, which is judged on
\* from/to (with the letter too when one is printed).
PvTexts(legal) == {MoveText(m) : m \in legal} \cup {MoveText(<<m[1], m[2], 0>>) : m \in legal}
InfoFails(legalTexts, infos) ==
  UNION {LET i == infos[j] IN
         IF ~i.ok THEN {<<"C18", "malformed", D(i.raw)>>}
         ELSE (IF i.depth < 1 THEN {<<"C18", "depth", D(i.raw)>>} ELSE {})
              \cup (IF i.kind = "mate" /\ i.val = 0 THEN {<<"C18", "mate-zero", D(i.raw)>>} ELSE {})
              \cup (IF i.kind = "cp" /\ (i.val >= POSINF \/ i.val <= NEGINF \/ i.val > MATE \/ i.val < -MATE)
                    THEN {<<"C18", "score-bound", D(i.raw)>>} ELSE {})
              \cup (IF i.kind = "mate" /\ (i.val > 50 \/ i.val < -50) THEN {<<"C18", "mate-bound", D(i.raw)>>} ELSE {})
              \cup (IF i.pv[1] \notin legalTexts THEN {<<"C18", "pv-illegal", D(i.raw)>>} ELSE {})
              \cup (IF j > 1 /\ infos[j - 1].ok
                    THEN (IF infos[j - 1].depth > i.depth THEN {<<"C18", "depth-decreases", D(i.raw)>>} ELSE {})
                         \cup (IF infos[j - 1].depth = i.depth /\ SRank(infos[j - 1]) >= SRank(i)
                                  /\ ~(i.kind = "mate" /\ infos[j - 1].kind = "mate" /\ i.val = infos[j - 1].val)
                               THEN {<<"C18", "not-increasing", D(i.raw)>>} ELSE {})
                    ELSE {})
         : j \in 1..Len(infos)}

(***************************************************************************)
(* sfull: the reference run.                                               *)
(***************************************************************************)
MateClaimFails(root, infos, hasHistory) ==
  IF hasHistory THEN {} ELSE    \* mate claims are judged on the rules alone only without a repetition history
  UNION {LET i == infos[j] IN
         IF ~i.ok \/ i.kind # "mate" THEN {}
         ELSE IF i.val > 0
              THEN (IF i.val <= MaxMateN /\ ~MateWithin(root, i.val) THEN {<<"C11", "false-mate-claim", D(i.raw)>>} ELSE {})
              ELSE \* negative claims only on the last line of a completed depth
                   IF j = LastOfDepth(infos, i.depth) /\ Completed(infos, i.depth) /\ -i.val <= MaxMateN /\ ~MatedWithin(root, -i.val)
                   THEN {<<"C11", "false-mated-claim", D(i.raw)>>} ELSE {}
         : j \in 1..Len(infos)}

FullFails(e) ==
  LET root == Decode(e.root)
      legal == Legal(root)
      hasHistory == Len(e.rep0) > 1
      mating == {m \in legal : Checkmate(Apply(root, m))}
      \* moves after which the opponent has no mate in one
      safe == {m \in legal : LET p2 == Apply(root, m) IN ~\E r \in Legal(p2) : Checkmate(Apply(p2, r))}
      l1 == LastOfDepth(e.infos, 1)
      l2 == LastOfDepth(e.infos, 2)
      repMove == \E j \in 1..Len(e.root_rep) : e.root_rep[j][2] >= 2
  IN
  (IF e.panic THEN {<<"C07", "panic", D(e.cmd)>>} ELSE {})
  \cup InfoFails(PvTexts(legal), e.infos)
  \cup
  \* C07: every board sent is a root successor and is the position its move gives
  UNION {LET s == e.sends[j].s  m == DescOf(s) IN
         IF m \notin legal THEN {<<"C07", "sent-illegal", D(m)>>}
         ELSE IF ~(SameAs(Apply(root, m), s) /\ KingsOk(Apply(root, m), s)) THEN {<<"C07", "sent-wrong-board", D(m)>>}
         ELSE {} : j \in 1..Len(e.sends)}
  \cup
  \* every reported line names the move of the board handed over last at that moment (an engine may report every
  \* improvement or only the last one of an iteration - what it reports must be what it handed over)
  (IF \E j \in 1..Len(e.infos) : e.infos[j].ok /\
        LET ls == LastSentUpTo(e.sends, e.infos[j].q) IN
        ls = 0 \/ e.infos[j].pv[1] \notin {MoveText(DescOf(e.sends[ls].s)), MoveText(<<e.sends[ls].s.d[1], e.sends[ls].s.d[2], 0>>)}
   THEN {<<"C07", "send-info-mismatch", D(e.cmd)>>} ELSE {})
  \cup
  \* C10: a root move into a position that already occurred twice => completed depths never score below zero
  (IF repMove
   THEN UNION {IF Completed(e.infos, d) /\ LastOfDepth(e.infos, d) # 0 /\ SRank(e.infos[LastOfDepth(e.infos, d)]) < 0
               THEN {<<"C10", "repetition-not-draw", D(<<d, e.infos[LastOfDepth(e.infos, d)].raw>>)>>} ELSE {} : d \in 1..e.D}
   ELSE {})
  \cup
  \* C11: mate in one is played once iteration 1 has finished; an avoidable mate in one is avoided after iteration 2.
  \* With a game history a move into a position that already occurred twice is a draw, not a mate / not a blunder:
  \* such moves are taken out of the mating set and added to the safe set (root_rep gives the count per root move).
  (LET drawn == {m \in legal : \E j \in 1..Len(e.root_rep) : e.root_rep[j][1] = MoveText(m) /\ e.root_rep[j][2] >= 2}
       mate1 == mating \ drawn
       s1 == IF l1 = 0 THEN 0 ELSE LastSentUpTo(e.sends, e.infos[l1].q)
       s2 == IF l2 = 0 THEN 0 ELSE LastSentUpTo(e.sends, e.infos[l2].q)
   IN (IF Completed(e.infos, 1) /\ l1 # 0 /\ s1 # 0 /\ mate1 # {} /\ DescOf(e.sends[s1].s) \notin mate1
       THEN {<<"C11", "mate-in-one-missed", D(e.infos[l1].raw)>>} ELSE {})
      \cup
      (IF e.tag = "mate" /\ Completed(e.infos, 2) /\ l2 # 0 /\ s2 # 0 /\ mate1 = {} /\ safe # {}
          /\ DescOf(e.sends[s2].s) \notin (safe \cup drawn)
       THEN {<<"C11", "walks-into-mate", D(e.infos[l2].raw)>>} ELSE {})
      \cup
      \* "once its second iteration has finished": whatever the search hands over from then on is what it would play if the
      \* clock ran out at that moment, so every later board must avoid the mate in one as well (a correct search cannot
      \* accept such a move: it scores -(MATE-2) against the safe move already held)
      (IF e.tag = "mate" /\ Completed(e.infos, 2) /\ l2 # 0 /\ s2 # 0 /\ mate1 = {} /\ safe # {}
          /\ \E j \in (s2 + 1)..Len(e.sends) : DescOf(e.sends[j].s) \notin (safe \cup drawn)
       THEN {<<"C11", "walks-into-mate-after-iteration-2",
               D(<<e.cmd, e.sends[CHOOSE j \in (s2 + 1)..Len(e.sends) : DescOf(e.sends[j].s) \notin (safe \cup drawn)].txt>>)>>} ELSE {})
      \cup
      \* the search gave up by itself (the clock never expired) after it had entered its second iteration: what it handed
      \* over last is its choice with all the time in the world, and a choice that walks into a mate in one although a safe
      \* move exists is not excused by the iteration never having been finished
      \* (entered its second iteration: a line of depth >= 2, or - for a search that never accepts anything again after
      \* iteration 1 - at least three times as many clock queries in total as iteration 1 had needed)
      (IF e.tag = "mate" /\ Has(e, "ended") /\ e.ended /\ mate1 = {} /\ safe # {}
          /\ (e.last_depth >= 2 \/ (l1 # 0 /\ Has(e, "queries") /\ e.queries > 3 * e.infos[l1].q + 10))
          /\ e.final_txt \notin {MoveText(m) : m \in safe \cup drawn}
       THEN {<<"C11", "gives-up-and-walks-into-mate", D(<<e.cmd, e.final_txt>>)>>} ELSE {})
      \cup
      \* a search that was given a thousand times the clock queries its first iteration took and has still not reported anything
      \* of its second one has finished that iteration long ago without taking anything from it: the move it sits on must
      \* not walk into a mate in one when a safe move exists
      (IF e.tag = "mate" /\ Has(e, "queries") /\ l1 # 0 /\ e.last_depth = 1
          /\ e.queries > 1000 * e.infos[l1].q + 20000 /\ mate1 = {} /\ safe # {}
          /\ e.final_txt \notin {MoveText(m) : m \in safe \cup drawn}
       THEN {<<"C11", "sits-on-a-move-that-walks-into-mate", D(<<e.cmd, e.final_txt>>)>>} ELSE {}))
  \cup MateClaimFails(root, e.infos, hasHistory)
  \* (C11, stalemate never scored as mate: a stalemating move announced as `mate 1` fails MateWithin above; the scenario
  \* generator supplies positions with a stalemating move one ply away)

(***************************************************************************)
(* srun: the search cut at clock query k, judged against its reference.    *)
(***************************************************************************)
RunFails(e) ==
  LET f == ctx IN
  (IF e.panic THEN {<<"C07", "panic", D(<<f.cmd, e.k>>)>>} ELSE {})
  \cup
  \* the fallback (nothing accepted): one board, a legal root move, the position that move gives
  (IF Len(e.infos) = 0 /\ e.k = 0
   THEN LET root == Decode(f.root) IN
        IF Len(e.sends) # 1 THEN {<<"C07", "fallback-count", D(<<f.cmd, Len(e.sends)>>)>>}
        ELSE LET s == e.sends[1].s  m == DescOf(s) IN
             IF m \notin Legal(root) THEN {<<"C07", "fallback-illegal", D(<<f.cmd, m>>)>>}
             ELSE IF ~(SameAs(Apply(root, m), s) /\ KingsOk(Apply(root, m), s)) THEN {<<"C07", "fallback-wrong-board", D(<<f.cmd, m>>)>>}
             \* "the first move in its ordering": no root move has a larger ordering value than the one handed back
             ELSE IF Has(f, "root_order") /\ \E i, j \in 1..Len(f.root_order) :
                        f.root_order[i][1] = e.sends[1].txt /\ f.root_order[j][2] > f.root_order[i][2]
                  THEN {<<"C07", "fallback-not-first-in-ordering", D(<<f.cmd, e.sends[1].txt>>)>>}
             ELSE {}
   ELSE {})
  \cup
  \* a larger allowance only extends what a smaller one reported
  (IF ~IsPrefix(SeenSeq(e.infos), SeenSeq(f.infos)) THEN {<<"C07", "infos-not-prefix", D(<<f.cmd, e.k>>)>>} ELSE {})
  \cup
  \* the boards handed back: exactly those the reference run had handed over by the expiry (a board is handed over right
  \* after the clock query that admitted it, so "by the expiry" is q <= k), or - when there are none - exactly the fallback
  (LET before == Cardinality({i \in 1..Len(f.sends) : f.sends[i].q <= e.k})
       isFallback == Len(e.sends) = 1 /\ (~Has(f, "fallback") \/ SendSeq(e.sends) = f.fallback)
   IN IF before > 0
      THEN (IF SendSeq(e.sends) = SubSeq(SendSeq(f.sends), 1, before) THEN {} ELSE {<<"C07", "sends-not-prefix", D(<<f.cmd, e.k, Len(e.sends), before>>)>>})
      ELSE (IF isFallback THEN {} ELSE {<<"C07", "fallback", D(<<f.cmd, e.k, Len(e.sends)>>)>>}))
  \cup
  \* nothing is accepted after the first expired query
  (IF \E j \in 1..Len(e.infos) : e.infos[j].q > e.k THEN {<<"C07", "accepted-after-expiry", D(<<f.cmd, e.k>>)>>} ELSE {})
  \cup
  \* the repetition record is handed back as it was given
  (IF e.rep_after # f.rep0 THEN {<<"C07", "repetition-record-changed", D(<<f.cmd, e.k>>)>>} ELSE {})
  \cup InfoFails(f.legalTexts, e.infos)

(***************************************************************************)
(* sallow: the same search (same virtual expiry, far out) handed another   *)
(* ALLOWANCE.  "Giving the search a larger allowance never changes the     *)
(* sequence of improvements it reported under a smaller one - it only      *)
(* extends it": the lines and boards of the two runs are prefix-related.   *)
(* (Equality is not demanded: code that also reads the real clock may stop *)
(* earlier under a small allowance.)                                       *)
(***************************************************************************)
PrefixRelated(s, t) == IsPrefix(s, t) \/ IsPrefix(t, s)
AllowFails(e) ==
  LET f == ctx IN
  (IF e.panic THEN {<<"C07", "panic", D(<<f.cmd, "allowance", e.a>>)>>} ELSE {})
  \cup (IF ~PrefixRelated(SeenSeq(e.infos), SeenSeq(e.ref_infos))
        THEN {<<"C07", "allowance-changes-reported-improvements", D(<<f.cmd, "allowance", e.a>>)>>} ELSE {})
  \cup (IF Len(e.infos) > 0 /\ Len(e.ref_infos) > 0 /\ ~PrefixRelated(SendSeq(e.sends), SendSeq(e.ref_sends))
        THEN {<<"C07", "allowance-changes-boards-handed-over", D(<<f.cmd, "allowance", e.a>>)>>} ELSE {})
  \cup (IF e.rep_after # f.rep0 THEN {<<"C07", "repetition-record-changed", D(<<f.cmd, "allowance", e.a>>)>>} ELSE {})
  \cup InfoFails(f.legalTexts, e.infos)

(***************************************************************************)
(* stree: exactness of shallow search against the reference value.         *)
(***************************************************************************)
TreeOf(e) ==
  LET ns == e.tree.nodes  n == Len(ns) IN
  [kids |-> [i \in 1..n |-> ns[i].kids], caps |-> [i \in 1..n |-> ns[i].caps], eval |-> [i \in 1..n |-> ns[i].e],
   chk |-> [i \in 1..n |-> ns[i].c], key |-> [i \in 1..n |-> ns[i].k], null |-> [i \in 1..n |-> 0], roots |-> e.tree.roots]
RepOf(e) == [i \in {e.tree.rep0[j][1] : j \in 1..Len(e.tree.rep0)} |->
               e.tree.rep0[CHOOSE j \in 1..Len(e.tree.rep0) : e.tree.rep0[j][1] = i][2]]
TreeFails(e) ==
  LET T == TreeOf(e)
      rep0 == RepOf(e)
  IN
  UNION {LET li == LastOfDepth(e.infos, d) IN
         IF li = 0 THEN {<<"TOOL", "no-line-for-depth", D(<<e.cmd, d>>)>>}
         ELSE LET want == RootRef(T, d, rep0)
                  got == e.infos[li]
                  gotText == <<got.kind, got.val>>
                  \* the root move the engine selected at the end of depth d: the last board it handed over up to that line
                  \* (normally the li-th send; a search that reports an improvement without handing its board over still
                  \* "selects" what it sent last)
                  upto == {i \in 1..Len(e.sends) : e.sends[i].q <= got.q}
                  lastSent == IF upto = {} THEN 0 ELSE CHOOSE i \in upto : \A j \in upto : j <= i
                  selTxt == IF lastSent = 0 THEN "" ELSE e.sends[lastSent].txt
                  sel == {j \in 1..Len(T.roots) : e.tree.root_txt[j] = selTxt}
              IN (IF ScoreText(want) # gotText THEN {<<"C12", "value", D(<<e.cmd, d, ScoreText(want), gotText>>)>>} ELSE {})
                 \cup (IF sel = {} THEN {<<"C12", "selected-move-unknown", D(<<e.cmd, d>>)>>}
                       ELSE IF \E j \in sel : RootMoveRef(T, T.roots[j], d, rep0) # want
                            THEN {<<"C12", "selected-move-does-not-attain", D(<<e.cmd, d, selTxt>>)>>} ELSE {})
         : d \in 1..e.D}


(***************************************************************************)
(* mcert: a mate announcement beyond the distance MateWithin is evaluated  *)
(* by brute force, decided through a CERTIFICATE that the harness found    *)
(* (with code that is not trusted) and that is checked here node by node   *)
(* against the rules.  Node (position, type, budget n, kids):              *)
(*   A   the mover mates within n of its moves: ONE kid, a successor by a  *)
(*       legal move, of type D with budget n-1                             *)
(*   D   checkmated now, or n >= 1 and EVERY legal reply is a kid of type  *)
(*       A with budget n (the kids are exactly the legal successors)       *)
(*   NA  the mover does not mate within n: n = 0, or EVERY legal move is a *)
(*       kid of type ND with budget n-1                                    *)
(*   ND  not checkmated and (n = 0, or stalemated, or ONE legal reply is a *)
(*       kid of type NA with budget n)                                     *)
(* The budget falls along every A-D-A / NA-ND-NA path, so the local checks *)
(* imply by induction  A => MateWithin(p, n),  D => Checkmate(p) \/        *)
(* MatedWithin(p, n),  NA => ~MateWithin(p, n),  ND => ~Checkmate(p) /\    *)
(* (n = 0 \/ ~MatedWithin(p, n)).                                          *)
(***************************************************************************)
NodeKey(x) == <<x.r, x.stm, x.cr, x.ep>>
PosKey(p) == <<EncodeR(p.b), p.stm, CrInt(p.cr), p.ep>>
NodeOk(ns, i) ==
  LET x == ns[i]
      p == Decode(x)
      L == Legal(p)
      succ == {PosKey(Apply(p, m)) : m \in L}
      kids == {NodeKey(ns[x.k[j]]) : j \in 1..Len(x.k)}
      KidsAre(ty, n) == \A j \in 1..Len(x.k) : x.k[j] \in 1..Len(ns) /\ ns[x.k[j]].t = ty /\ ns[x.k[j]].n = n
  IN CASE x.t = "A" -> x.n >= 1 /\ Len(x.k) = 1 /\ KidsAre("D", x.n - 1) /\ kids \subseteq succ
       [] x.t = "D" -> IF L = {} THEN InCheck(p.b, p.stm)
                       ELSE x.n >= 1 /\ KidsAre("A", x.n) /\ kids = succ
       [] x.t = "NA" -> x.n = 0 \/ (KidsAre("ND", x.n - 1) /\ kids = succ)
       [] x.t = "ND" -> IF L = {} THEN ~InCheck(p.b, p.stm)
                        ELSE x.n = 0 \/ (Len(x.k) = 1 /\ KidsAre("NA", x.n) /\ kids \subseteq succ)
       [] OTHER -> FALSE
CertFails(e) ==
  LET ns == e.nodes
      n == IF e.claim > 0 THEN e.claim ELSE -e.claim
      rootType == IF e.cert = "proof" THEN (IF e.claim > 0 THEN "A" ELSE "D") ELSE (IF e.claim > 0 THEN "NA" ELSE "ND")
  IN IF e.cert = "none" THEN {}
     ELSE IF Len(ns) = 0 \/ NodeKey(ns[1]) # NodeKey(e.root) \/ ns[1].t # rootType \/ ns[1].n # n
             \/ \E i \in 1..Len(ns) : ~NodeOk(ns, i)
          \* a certificate that does not check says nothing about the announcement: the generator that produced it
          \* disagrees with the rules (C01's business)
          THEN {<<"C01", "mate-certificate-does-not-check", D(<<e.cmd, e.claim>>)>>}
     ELSE IF e.cert = "refutation"
          THEN {<<"C11", IF e.claim > 0 THEN "false-mate-claim" ELSE "false-mated-claim", D(<<e.raw, "refuted by a checked certificate">>)>>}
     ELSE {}

Fails(e) ==
  CASE e.ev = "sfull" -> (IF WellFormed(Decode(e.root)) THEN FullFails(e) ELSE {})
    [] e.ev = "srun" -> RunFails(e)
    [] e.ev = "sallow" -> AllowFails(e)
    [] e.ev = "stree" -> TreeFails(e)
    [] e.ev = "mcert" -> CertFails(e)
    [] OTHER -> {<<"TOOL", "unknown-event", D(e.ev)>>}

ZeroCnt == [sfull |-> 0, srun |-> 0, sallow |-> 0, stree |-> 0, infos |-> 0, mates |-> 0, cut_before_first |-> 0, reached_last_iteration |-> 0,
            mcert_proofs |-> 0, mcert_refutations |-> 0, mcert_none |-> 0, mcert_nodes |-> 0, mcert_beyond_3 |-> 0]
Count(c, e) ==
  CASE e.ev = "sfull" -> [c EXCEPT !.sfull = @ + 1, !.infos = @ + Len(e.infos),
                                   !.reached_last_iteration = @ + (IF "last_depth" \in DOMAIN e /\ e.last_depth >= 99 THEN 1 ELSE 0),
                                   !.mates = @ + Cardinality({j \in 1..Len(e.infos) : e.infos[j].ok /\ e.infos[j].kind = "mate"})]
    [] e.ev = "srun" -> [c EXCEPT !.srun = @ + 1, !.infos = @ + Len(e.infos),
                                  !.cut_before_first = @ + (IF Len(e.infos) = 0 THEN 1 ELSE 0)]
    [] e.ev = "sallow" -> [c EXCEPT !.sallow = @ + 1, !.infos = @ + Len(e.infos)]
    [] e.ev = "stree" -> [c EXCEPT !.stree = @ + 1]
    [] e.ev = "mcert" -> [c EXCEPT !.mcert_proofs = @ + (IF e.cert = "proof" THEN 1 ELSE 0),
                                   !.mcert_refutations = @ + (IF e.cert = "refutation" THEN 1 ELSE 0),
                                   !.mcert_none = @ + (IF e.cert = "none" THEN 1 ELSE 0),
                                   !.mcert_nodes = @ + Len(e.nodes),
                                   !.mcert_beyond_3 = @ + (IF e.cert # "none" /\ (e.claim > 3 \/ e.claim < -3) THEN 1 ELSE 0)]
    [] OTHER -> c

\* the reference run becomes the context of the srun events that follow it; the run with k = 0 defines the fallback
NewCtx(e) ==
  IF e.ev = "sfull"
  THEN [x \in DOMAIN e \cup {"legalTexts"} |-> IF x = "legalTexts" THEN PvTexts(Legal(Decode(e.root))) ELSE e[x]]
  ELSE IF e.ev = "srun" /\ e.k = 0 /\ Len(e.sends) = 1 THEN [x \in DOMAIN ctx \cup {"fallback"} |-> IF x = "fallback" THEN SendSeq(e.sends) ELSE ctx[x]]
  ELSE ctx

Init == l = 1 /\ bad = {} /\ cnt = ZeroCnt /\ ctx = [ev |-> "none"]
Next == /\ l <= Len(Rec)
        /\ l' = l + 1
        /\ bad' = bad \cup {<<f[1], l, f[2], f[3]>> : f \in Fails(Rec[l])}
        /\ cnt' = Count(cnt, Rec[l])
        /\ ctx' = NewCtx(Rec[l])
Spec == Init /\ [][Next]_vars

Report == l = Len(Rec) + 1 =>
            ndJsonSerialize(IOEnv.OUT, <<[cnt |-> cnt, lines |-> Len(Rec), bad |-> SetToSeq(bad)]>>)
Accepted == TLCGet("stats").diameter - 1 = Len(Rec)
=============================================================================
