----------------------------- MODULE TraceRules -----------------------------
(***************************************************************************)
(* Trace validation of the rules machine (direction code -> spec).         *)
(*                                                                         *)
(* The Rust harness drives the real functions (generate_moves in both      *)
(* modes, is_check, uci::make_move, uci::play_out_position, from_fen,      *)
(* get_evaluation) and logs one ndjson event per call at its return (the   *)
(* linearization point of sequential code).  Every event carries the       *)
(* arguments and the projected abstract state, so validation is linear.    *)
(*                                                                         *)
(* Events are independent observations, so a failing conjunct does not     *)
(* stop the run: it is recorded in the verdict register `bad` under the    *)
(* property it belongs to and validation continues with the next line.     *)
(* Acceptance (POSTCONDITION): every line consumed and `bad` empty.        *)
(***************************************************************************)
EXTENDS Chess, Json, IOUtils, TLCExt, SequencesExt

Rec == ndJsonDeserialize(IOEnv.TRACE)

D(x) == ToString(x)

VARIABLES l, bad, cnt, div
vars == <<l, bad, cnt, div>>


Has(e, f) == f \in DOMAIN e

\* engine state record S as logged: r, stm, cr, ep, wk, bk, d (descriptor), res (hash residue)
SameAs(p, e) == /\ EncodeR(p.b) = e.r /\ p.stm = e.stm /\ p.ep = e.ep /\ CrInt(p.cr) = e.cr
KingsOk(p, e) == e.wk = KingSq(p.b, 0) /\ e.bk = KingSq(p.b, 1)
DescOf(s) == <<s.d[1], s.d[2], Kind(s.d[3])>>
OneKingEach(b) == Cardinality(Kings(b, 0)) = 1 /\ Cardinality(Kings(b, 1)) = 1

(***************************************************************************)
(* gen: one call of generate_moves(board, mode).                           *)
(***************************************************************************)
\* The position the RULES give for the board of a gen event: the event's own position at a chain root,
\* otherwise the rules' successor of the parent's (spec) position by the move that led here.  It differs
\* from the engine's recorded state exactly when an earlier successor was wrong; `div` remembers those.
SpecPos(e) ==
  IF e.par = 0 THEN Decode(e.pos)
  ELSE LET pe == Rec[e.par]
           sp == IF e.par \in DOMAIN div THEN div[e.par] ELSE Decode(pe.pos)
           m == DescOf(pe.moves[e.via].s)
           parentOk == ~\E x \in bad : x[2] = e.par /\ x[3] = "moveset"
       IN IF WellFormed(sp) /\ (parentOk \/ m \in Legal(sp)) THEN Apply(sp, m) ELSE Decode(e.pos)

GenFails(e, pos) ==
  LET diverged == pos # Decode(e.pos)
      all == e.mode = "all"
      legal == Legal(pos)
      want == IF all THEN legal ELSE {m \in legal : IsCapture(pos, m)}
      descs == [i \in 1..Len(e.moves) |-> DescOf(e.moves[i].s)]
      got == ToSet(descs)
      par == IF e.par = 0 THEN e ELSE Rec[e.par]
  IN
  \* C01 / C13: the set of generated descriptors is exactly the legal (capturing) moves, no duplicates
  (IF got # want \/ Cardinality(got) # Len(e.moves)
   THEN {<<IF all THEN "C01" ELSE "C13", "moveset", D([extra |-> got \ want, missing |-> want \ got, dup |-> Len(e.moves) - Cardinality(got)])>>}
   ELSE {})
  \cup
  \* C02 / C13: every successor is the position the rules give, king cache included
  UNION {LET s == e.moves[i].s  m == descs[i] IN
         IF diverged THEN {}      \* the first wrong successor was reported at the parent event
         ELSE IF m \in legal
         THEN LET a == Apply(pos, m) IN
              (IF SameAs(a, s) /\ KingsOk(a, s) THEN {}
               ELSE {<<IF all THEN "C02" ELSE "C13", "successor", D(m)>>})
              \cup
              \* C05, route independence: the successor's key is the key of the engine's own state (residue below), so
              \* it is the key of the position this route really leads to only if that state is the rules' position
              (IF Identity(Decode(s)) # Identity(a) THEN {<<"C05", "key-of-wrong-position", D(m)>>} ELSE {})
              \cup
              \* descriptor as printed: the engine's own bestmove text for this successor is the UCI text of m
              \* (promotion letter iff m promotes follows from m \in Legal(pos))
              (IF Has(e.moves[i], "txt") /\ e.moves[i].txt # MoveText(m) THEN {<<"C02", "printed-text", D(<<m, e.moves[i].txt>>)>>} ELSE {})
              \cup
              \* C04: the printed text replayed through the text applier reproduces the rules' position,
              \* and the generator's own successor (key included)
              (IF Has(e.moves[i], "tpanic") THEN {<<"C04", "text-apply-panic", D(m)>>} ELSE {})
              \cup
              (IF Has(e.moves[i], "t")
               THEN LET tt == e.moves[i].t IN
                    (IF SameAs(a, tt) /\ KingsOk(a, tt) THEN {} ELSE {<<"C04", "text-apply", D(m)>>})
                    \cup (IF tt.res # <<>> THEN {<<"C05", "residue-text", D(<<m, tt.res>>)>>} ELSE {})
                    \cup (IF Identity(Decode(tt)) # Identity(a) THEN {<<"C05", "key-of-wrong-position-text", D(m)>>} ELSE {})
                    \cup (IF tt.r # s.r \/ tt.stm # s.stm \/ tt.cr # s.cr \/ tt.ep # s.ep \/ tt.wk # s.wk \/ tt.bk # s.bk \/ tt.key # s.key
                          THEN {<<"C04", "text-vs-generator", D(m)>>} ELSE {})
               ELSE {})
         ELSE \* not a legal move: is it a wrongly described legal move? then C02's descriptor clause fails
              IF \E m2 \in legal : SameAs(Apply(pos, m2), s)
              THEN {<<IF all THEN "C02" ELSE "C13", "descriptor", D(m)>>}
              ELSE {}
         : i \in 1..Len(e.moves)}
  \cup
  \* C05: incrementally maintained key = key from scratch, for the position and every successor
  (IF e.pos.res # <<>> THEN {<<"C05", "residue-parent", D(e.pos.res)>>} ELSE {})
  \cup
  UNION {IF e.moves[i].s.res # <<>> THEN {<<"C05", "residue", D(<<descs[i], e.moves[i].s.res>>)>>} ELSE {} : i \in 1..Len(e.moves)}
  \cup
  \* C06: check flags for both colours
  (LET eb == DecodeB(e.pos.r) IN
   IF OneKingEach(eb) /\ (e.chk[1] # InCheck(eb, 0) \/ e.chk[2] # InCheck(eb, 1))
   THEN {<<"C06", "check", D(e.chk)>>} ELSE {})
  \cup
  \* chain consistency (harness side): this board is the via-th successor of its parent event
  (IF e.par # 0 /\ (par.moves[e.via].s.r # e.pos.r \/ par.moves[e.via].s.stm # e.pos.stm
                    \/ par.moves[e.via].s.cr # e.pos.cr \/ par.moves[e.via].s.ep # e.pos.ep)
   THEN {<<"TOOL", "chain", D(e.par)>>} ELSE {})

GenCounts(e) ==
  LET pos == SpecPos(e) IN
  [wf |-> 1,
   castle |-> Cardinality({i \in 1..Len(e.moves) : IsCastle(pos, DescOf(e.moves[i].s))}),
   ep |-> Cardinality({i \in 1..Len(e.moves) : IsEpCapture(pos, DescOf(e.moves[i].s))}),
   promo |-> Cardinality({i \in 1..Len(e.moves) : e.moves[i].s.d[3] # 0}),
   incheck |-> IF e.chk[pos.stm + 1] THEN 1 ELSE 0,
   moves |-> Len(e.moves)]

(***************************************************************************)
(* chk: is_check for both colours on a placement with one king each.       *)
(***************************************************************************)
ChkFails(e) ==
  LET b == DecodeB(e.pos.r) IN
  IF ~OneKingEach(b) THEN {<<"TOOL", "chk-kings", "">>}
  ELSE IF e.chk[1] # InCheck(b, 0) \/ e.chk[2] # InCheck(b, 1)
       THEN {<<"C06", "check", D(e.chk)>>} ELSE {}

(***************************************************************************)
(* txt: one call of uci::make_move(before, text) -> after.                 *)
(***************************************************************************)
TxtFails(e) ==
  LET pos == Decode(e.before)
      ms == {m \in Legal(pos) : MoveText(m) = e.text}
  IN IF ms = {} THEN {}
     ELSE LET m == CHOOSE x \in ms : TRUE
              a == Apply(pos, m) IN
          (IF SameAs(a, e.after) /\ KingsOk(a, e.after) THEN {} ELSE {<<"C04", "text-apply", D(e.text)>>})
          \cup (IF e.after.res # <<>> THEN {<<"C05", "residue-text", D(<<e.text, e.after.res>>)>>} ELSE {})
          \cup (IF Has(e, "gensucc") /\ (e.gensucc.r # e.after.r \/ e.gensucc.stm # e.after.stm \/ e.gensucc.cr # e.after.cr
                                          \/ e.gensucc.ep # e.after.ep \/ e.gensucc.wk # e.after.wk \/ e.gensucc.bk # e.after.bk
                                          \/ e.gensucc.key # e.after.key)
                THEN {<<"C04", "text-vs-generator", D(e.text)>>} ELSE {})

(***************************************************************************)
(* pos: one `position ...` command through uci::play_out_position.         *)
(* states[i] is the engine state after i-1 moves, keys[i] its from-scratch *)
(* key (hex string), table the repetition record afterwards.               *)
(***************************************************************************)
RECURSIVE Play(_, _, _)
Play(p, texts, i) ==
  IF i > Len(texts) THEN <<p>>
  ELSE LET ms == {m \in Legal(p) : MoveText(m) = texts[i]} IN
       IF ms = {} THEN <<p>>      \* illegal text: stop, caller compares lengths
       ELSE <<p>> \o Play(Apply(p, CHOOSE x \in ms : TRUE), texts, i + 1)

PosFails(e) ==
  LET p0 == Decode(e.start)
      hist == Play(p0, e.texts, 1)
      n == Len(hist)
      ids == [i \in 1..n |-> Identity(hist[i])]
      occ(i) == Cardinality({j \in 1..n : ids[j] = ids[i]})
      tbl == [k \in {e.table[j][1] : j \in 1..Len(e.table)} |->
                 (CHOOSE j \in 1..Len(e.table) : e.table[j][1] = k)]
      cntOf(k) == IF k \in DOMAIN tbl THEN e.table[tbl[k]][2] ELSE 0
  IN IF n # Len(e.texts) + 1 THEN {}    \* a text that is not a legal move (an engine-generated illegal move is C01's business)
     ELSE
     \* C04: the reconstructed position is the rules' position (final state; every prefix when logged)
     (IF e.panic THEN {<<"C04", "position-panic", D(e.cmd)>>}
      ELSE (IF SameAs(hist[n], e.final) /\ KingsOk(hist[n], e.final) THEN {} ELSE {<<"C04", "position-final", D(e.cmd)>>})
           \cup (IF \E i \in 1..n : ~(SameAs(hist[i], e.states[i]) /\ KingsOk(hist[i], e.states[i]))
                 THEN {<<"C04", "position-prefix", D(e.cmd)>>} ELSE {})
           \cup (IF \E i \in 1..n : e.states[i].res # <<>> THEN {<<"C05", "residue-prefix", D(e.cmd)>>} ELSE {}))
     \cup (IF ~e.panic /\ e.final.res # <<>> THEN {<<"C05", "residue-position", D(e.final.res)>>} ELSE {})
     \cup
     \* C05: every prefix state is the rules' position, so its key is the key of that position (route independence:
     \* the same position loaded from FEN carries the key of the rules' position)
     (IF ~e.panic /\ \E i \in 1..n : Identity(Decode(e.states[i])) # ids[i] THEN {<<"C05", "key-of-wrong-position", D(e.cmd)>>} ELSE {})
     \cup
     \* C10: the record holds exactly the number of occurrences of every position of the game, nothing else.
     \* Judged on the keys of the engine's own prefix states, which is meaningful only when those states are the
     \* rules' positions (otherwise C04 reports the wrong state and the record cannot be attributed).
     (IF e.panic \/ \E i \in 1..n : ~SameAs(hist[i], e.states[i]) THEN {}
      ELSE (IF \E i, j \in 1..n : (e.keys[i] = e.keys[j]) # (ids[i] = ids[j]) THEN {<<"TOOL", "keys-vs-identity", "">>} ELSE {})
           \cup (IF \E i \in 1..n : cntOf(e.keys[i]) # occ(i) THEN {<<"C10", "count", D([i \in 1..n |-> <<occ(i), cntOf(e.keys[i])>>])>>} ELSE {})
           \cup (IF \E j \in 1..Len(e.table) : e.table[j][2] # 0 /\ e.table[j][1] \notin ToSet(e.keys)
                 THEN {<<"C10", "stale-entry", D(e.table)>>} ELSE {}))

(***************************************************************************)
(* fen: one call of BoardState::from_fen(input).                           *)
(* kind "spec": input claims to be the FEN of position spec with counters  *)
(* half/full - the specification checks the claim (ToFen) and the result.  *)
(* kind "fuzz": any string; the outcome must be ok or err, never a panic.  *)
(***************************************************************************)
FenFails(e) ==
  IF e.kind = "spec"
  THEN LET p == Decode(e.spec) IN
       (IF ToFen(p, e.half, e.full) # e.input THEN {<<"TOOL", "fen-render", D(ToFen(p, e.half, e.full))>>} ELSE {})
       \cup
       (IF e.outcome # "ok" THEN {<<"C15", "rejected", D(e.input)>>}
        ELSE (IF SameAs(p, e.loaded) /\ KingsOk(p, e.loaded) THEN {} ELSE {<<"C15", "loaded", D(e.input)>>})
             \cup (IF e.loaded.res # <<>> THEN {<<"C05", "residue-fen", D(e.loaded.res)>>} ELSE {}))
  ELSE IF e.outcome \notin {"ok", "err"} THEN {<<"C15", "panic", D(e.input)>>} ELSE {}

(***************************************************************************)
(* eval: get_evaluation on a placement, its mirror, the side swap, and     *)
(* variants differing only in non-placement fields.                        *)
(***************************************************************************)
MATE == 100000
MateWindow == 15
EvalBound == 50000   \* "far below" the mate range [MATE - 100, MATE]: at most half of it
\* the bound is claimed for material up to nine queens a side (at most 16 men a side)
CountCol(b, c) == Cardinality({s \in 1..64 : Col(b[s]) = c})
CountPc(b, p) == Cardinality({s \in 1..64 : b[s] = p})
BoundedMaterial(b) == /\ CountCol(b, 0) <= 16 /\ CountCol(b, 1) <= 16
                      /\ CountPc(b, Pc(0, Q)) <= 9 /\ CountPc(b, Pc(1, Q)) <= 9
EvalFails(e) ==
  LET p == Decode(e.p) IN
  (IF Encode(Mirror(p)) # [r |-> e.mirror.r, stm |-> e.mirror.stm, cr |-> e.mirror.cr, ep |-> e.mirror.ep]
   THEN {<<"TOOL", "mirror", "">>} ELSE {})
  \cup (IF e.e_m # e.e THEN {<<"C14", "mirror", D(<<e.e, e.e_m>>)>>} ELSE {})
  \cup (IF e.e_swap # -e.e THEN {<<"C14", "side-relative", D(<<e.e, e.e_swap>>)>>} ELSE {})
  \cup (IF Has(e, "e_swap_stalekey") /\ e.e_swap_stalekey # -e.e THEN {<<"C14", "side-relative-depends-on-key", D(<<e.e, e.e_swap_stalekey>>)>>} ELSE {})
  \cup (IF Has(e, "e_again") /\ e.e_again # e.e THEN {<<"C14", "not-a-function-of-the-position", D(<<e.e, e.e_again>>)>>} ELSE {})
  \cup (IF \E i \in 1..Len(e.e_var) : e.e_var[i] # e.e THEN {<<"C14", "depends-on-non-placement", D(e.e_var)>>} ELSE {})
  \* "far below the range reserved for mate scores": at most half of the magnitude the search itself uses for a mate (logged
  \* with the event), and in any case below the specification's own constant
  \cup (LET bound == IF Has(e, "mate") /\ e.mate \div 2 < EvalBound THEN e.mate \div 2 ELSE EvalBound IN
        IF BoundedMaterial(p.b) /\ (e.e >= bound \/ e.e <= -bound) THEN {<<"C14", "bound", D(<<e.e, bound>>)>>} ELSE {})

(***************************************************************************)
(* keypair: two engine states with their keys.  The key is a function of   *)
(* the position's identity and an injective one on everything explored:    *)
(* equal identity => equal key (transposed move orders, the same FEN),     *)
(* different identity (one component perturbed) => different key.          *)
(***************************************************************************)
KeyPairFails(e) ==
  LET ia == Identity(Decode(e.a))  ib == Identity(Decode(e.b)) IN
  (IF ia = ib /\ e.a.key # e.b.key THEN {<<"C05", "same-position-different-key", D(<<e.fa, e.fb>>)>>} ELSE {})
  \cup (IF ia # ib /\ e.a.key = e.b.key THEN {<<"C05", "different-position-same-key", D(<<e.fa, e.fb>>)>>} ELSE {})
  \cup (IF e.a.res # <<>> \/ e.b.res # <<>> THEN {<<"C05", "residue-pair", D(<<e.fa, e.fb>>)>>} ELSE {})

(***************************************************************************)
(* cli: the command-line front end `walleye --fen <input> -T -d 1`.        *)
(* It must exit normally for every string (printing the error); a spec     *)
(* FEN must be accepted (the node count line is printed).                  *)
(***************************************************************************)
CliFails(e) ==
  (IF e.exit # 0 THEN {<<"C15", "cli-exit", D(<<e.exit, e.input>>)>>} ELSE {})
  \cup (IF e.kind = "spec" /\ ~e.searched THEN {<<"C15", "cli-rejected", D(e.input)>>} ELSE {})

Fails(e) ==
  CASE e.ev = "gen" -> (LET sp == SpecPos(e) IN IF WellFormed(sp) THEN GenFails(e, sp) ELSE {})
    [] e.ev = "chk" -> ChkFails(e)
    [] e.ev = "txt" -> (IF WellFormed(Decode(e.before)) THEN TxtFails(e) ELSE {})
    [] e.ev = "pos" -> PosFails(e)
    [] e.ev = "fen" -> FenFails(e)
    [] e.ev = "eval" -> EvalFails(e)
    [] e.ev = "cli" -> CliFails(e)
    [] e.ev = "keypair" -> KeyPairFails(e)
    [] OTHER -> {<<"TOOL", "unknown-event", D(e.ev)>>}

ZeroCnt == [gen |-> 0, diverged |-> 0, skipped |-> 0, castle |-> 0, ep |-> 0, promo |-> 0, incheck |-> 0, moves |-> 0,
            chk |-> 0, txt |-> 0, pos |-> 0, fen |-> 0, eval |-> 0, cli |-> 0, keypairs |-> 0, transpositions |-> 0]
Count(c, e) ==
  CASE e.ev = "gen" ->
         IF WellFormed(SpecPos(e))
         THEN LET g == GenCounts(e) IN
              [c EXCEPT !.gen = @ + 1, !.castle = @ + g.castle, !.ep = @ + g.ep, !.promo = @ + g.promo,
                        !.incheck = @ + g.incheck, !.moves = @ + g.moves]
         ELSE [c EXCEPT !.skipped = @ + 1]
    [] e.ev = "chk" -> [c EXCEPT !.chk = @ + 1]
    [] e.ev = "txt" -> IF WellFormed(Decode(e.before)) THEN [c EXCEPT !.txt = @ + 1] ELSE [c EXCEPT !.skipped = @ + 1]
    [] e.ev = "pos" -> [c EXCEPT !.pos = @ + 1]
    [] e.ev = "fen" -> [c EXCEPT !.fen = @ + 1]
    [] e.ev = "eval" -> [c EXCEPT !.eval = @ + 1]
    [] e.ev = "cli" -> [c EXCEPT !.cli = @ + 1]
    [] e.ev = "keypair" -> [c EXCEPT !.keypairs = @ + 1,
                                     !.transpositions = @ + (IF e.kind = "transpose" /\ Identity(Decode(e.a)) = Identity(Decode(e.b)) THEN 1 ELSE 0)]
    [] OTHER -> c

Init == l = 1 /\ bad = {} /\ cnt = ZeroCnt /\ div = <<>>
Next == /\ l <= Len(Rec)
        /\ l' = l + 1
        /\ bad' = bad \cup {<<f[1], l, f[2], f[3]>> : f \in Fails(Rec[l])}
        /\ cnt' = Count(cnt, Rec[l])
        /\ div' = IF Rec[l].ev = "gen" /\ Rec[l].par # 0 /\ SpecPos(Rec[l]) # Decode(Rec[l].pos)
                  THEN div @@ (l :> SpecPos(Rec[l])) ELSE div
Spec == Init /\ [][Next]_vars

\* as soon as the last line is consumed (single behaviour, so exactly once) the verdict record is
\* written for the driver: counters and the verdict register
Report == l = Len(Rec) + 1 =>
            ndJsonSerialize(IOEnv.OUT, <<[cnt |-> cnt, lines |-> Len(Rec), bad |-> SetToSeq(bad)]>>)
Accepted == TLCGet("stats").diameter - 1 = Len(Rec)
=============================================================================
