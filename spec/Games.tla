-------------------------------- MODULE Games --------------------------------
(***************************************************************************)
(* Direction spec -> code for the text applier: TLC simulates games from   *)
(* Chess.tla (legal moves only, every third ply a special move - castling, *)
(* en passant, promotion, double step, corner rook move or capture - when  *)
(* one exists) and prints each game as UCI move texts together with the    *)
(* position the rules give after every prefix.  The harness replays the    *)
(* texts through uci::make_move and uci::play_out_position and compares    *)
(* every prefix.                                                           *)
(***************************************************************************)
EXTENDS Chess, Json, IOUtils

SeedRecs == ndJsonDeserialize(IOEnv.SEEDS)
MaxN == atoi(IOEnv.MAXN)

VARIABLES start, pos, texts, states, n
vars == <<start, pos, texts, states, n>>

Special(p, m) ==
  \/ IsCastle(p, m) \/ IsEpCapture(p, m) \/ m[3] # 0
  \/ (Kind(p.b[m[1]]) = P /\ (m[2] - m[1] = 16 \/ m[1] - m[2] = 16))
  \/ m[1] \in {1, 8, 57, 64} \/ m[2] \in {1, 8, 57, 64}

Init == /\ \E i \in 1..Len(SeedRecs) : start = SeedRecs[i] /\ pos = Decode(SeedRecs[i])
        /\ texts = <<>> /\ states = <<>> /\ n = 0
Next == /\ n < MaxN
        /\ LET L == Legal(pos)
               S == {m \in L : Special(pos, m)}
               C == IF S # {} /\ n % 3 = 2 THEN S ELSE L
           IN \E m \in C :
                /\ pos' = Apply(pos, m)
                /\ texts' = Append(texts, MoveText(m))
                /\ states' = Append(states, Encode(Apply(pos, m)))
        /\ n' = n + 1 /\ UNCHANGED start
Spec == Init /\ [][Next]_vars

Done == n = MaxN \/ Legal(pos) = {}
Emit == (n > 0 /\ Done) =>
          PrintT(<<"GAME", ToJson([fen |-> ToFen(Decode(start), 0, 1), start |-> start, texts |-> texts, states |-> states])>>)
=============================================================================
