--------------------------------- MODULE Fam ---------------------------------
(***************************************************************************)
(* Direction spec -> code: exhaustive geometric families enumerated by TLC *)
(* from Chess.tla.  Every member is a well-formed position; TLC prints,    *)
(* per member, what the rules say must be observed (legal moves, legal     *)
(* captures, check flags); the Rust harness builds the same position       *)
(* directly into a BoardState, runs the real generator / is_check on it    *)
(* and compares.                                                           *)
(*                                                                         *)
(* The state graph is a two-level fan-out so that the workers share the    *)
(* enumeration: stage 0 -> (colour, king square) -> (piece, square).        *)
(* FAMILY (environment) selects the family; SAMPLE > 1 keeps every         *)
(* SAMPLE-th member (offset OFFSET) for the quick tier.                    *)
(***************************************************************************)
EXTENDS Chess, Json, IOUtils

Family == IOEnv.FAMILY
Sample == atoi(IOEnv.SAMPLE)
Offset == atoi(IOEnv.OFFSET)

VARIABLES stage, c, k, pos, idx
vars == <<stage, c, k, pos, idx>>

Empty == [s \in 1..64 |-> 0]
None == [b |-> Empty, stm |-> 0, cr |-> {}, ep |-> 0]
Place(b, sq, pc) == [b EXCEPT ![sq] = pc]

\* --- castling: own king and both rooks at home with both rights; enemy king everywhere; one enemy man or none ---
CastleBase(col) == IF col = 0 THEN Place(Place(Place(Empty, 5, 6), 1, 4), 8, 4)
                   ELSE Place(Place(Place(Empty, 61, 12), 57, 10), 64, 10)
CastleMember(col, ek, pc, sq) ==
  LET b0 == Place(CastleBase(col), ek, Pc(1 - col, K))
      b1 == IF pc = 0 THEN b0 ELSE Place(b0, sq, Pc(1 - col, pc))
  IN [b |-> b1, stm |-> col, cr |-> IF col = 0 THEN {1, 2} ELSE {3, 4}, ep |-> 0]

\* --- rook capture: the side to move (col) has a king and one officer; the other side has king and both rooks at home
\* with both rights: what may that side still do after a rook was captured on its corner? ---
RookCapMember(col, ok, pc, sq) ==
  LET v == 1 - col
      b0 == Place(Place(CastleBase(v), ok, Pc(col, K)), sq, Pc(col, pc))
  IN [b |-> b0, stm |-> col, cr |-> IF v = 0 THEN {1, 2} ELSE {3, 4}, ep |-> 0]

\* --- en passant: capturer of colour col on its fifth rank, victim just double-stepped next to it; own king on
\* the lines through the pawns; enemy king in a far corner; one enemy slider everywhere ---
EpRank(col) == IF col = 0 THEN 5 ELSE 4
EpMember(col, f, vf, ok, pc, sq) ==
  LET r == EpRank(col)
      cap == Sq(f, r)
      vic == Sq(vf, r)
      tgt == IF col = 0 THEN vic + 8 ELSE vic - 8
      ek == IF col = 0 THEN (IF ok = 64 \/ cap = 64 \/ vic = 64 THEN 57 ELSE 64) ELSE (IF ok = 1 \/ cap = 1 \/ vic = 1 THEN 8 ELSE 1)
      b0 == Place(Place(Place(Place(Empty, cap, Pc(col, P)), vic, Pc(1 - col, P)), ok, Pc(col, K)), ek, Pc(1 - col, K))
      b1 == IF pc = 0 THEN b0 ELSE Place(b0, sq, Pc(1 - col, pc))
  IN [b |-> b1, stm |-> col, cr |-> {}, ep |-> tgt]

\* --- en passant with TWO capturers flanking the pawn that just double-stepped (victim file vf, capturers vf-1 and vf+1):
\* one capture may be illegal (pin on a file / diagonal / the rank) while the other is legal ---
Ep2Member(col, vf, ok, pc, sq) ==
  LET r == EpRank(col)
      capA == Sq(vf - 1, r)
      capB == Sq(vf + 1, r)
      vic == Sq(vf, r)
      tgt == IF col = 0 THEN vic + 8 ELSE vic - 8
      ek == IF col = 0 THEN (IF 64 \in {ok, capA, capB, vic} THEN 57 ELSE 64) ELSE (IF 1 \in {ok, capA, capB, vic} THEN 8 ELSE 1)
      b0 == Place(Place(Place(Place(Place(Empty, capA, Pc(col, P)), capB, Pc(col, P)), vic, Pc(1 - col, P)), ok, Pc(col, K)), ek, Pc(1 - col, K))
      b1 == IF pc = 0 THEN b0 ELSE Place(b0, sq, Pc(1 - col, pc))
  IN [b |-> b1, stm |-> col, cr |-> {}, ep |-> tgt]

\* --- promotion: pawn on its seventh rank, enemy men on the two capture squares / in front, own king anywhere ---
PromoMember(col, f, ok, pc, sq) ==
  LET r == IF col = 0 THEN 7 ELSE 2
      lr == IF col = 0 THEN 8 ELSE 1
      pw == Sq(f, r)
      ek == IF col = 0 THEN (IF ok \in {57, 58} \/ pw \in {49, 50} THEN 64 ELSE 57) ELSE (IF ok \in {1, 2} \/ pw \in {9, 10} THEN 8 ELSE 1)
      b0 == Place(Place(Place(Empty, pw, Pc(col, P)), ok, Pc(col, K)), ek, Pc(1 - col, K))
      b1 == IF pc = 0 THEN b0 ELSE Place(b0, sq, Pc(1 - col, pc))
  IN [b |-> b1, stm |-> col, cr |-> {}, ep |-> 0]

Abs(x) == IF x < 0 THEN -x ELSE x
Dist(a, b) == LET df == Abs(File(a) - File(b))  dr == Abs(Rank(a) - Rank(b)) IN IF df > dr THEN df ELSE dr

Init == stage = 0 /\ c = 0 /\ k = 0 /\ pos = None /\ idx = 0

Level1 ==
  /\ stage = 0 /\ stage' = 1 /\ pos' = None /\ idx' = 0
  /\ c' \in 0..1
  /\ CASE Family = "castle" -> k' \in (1..64) \ (IF c' = 0 THEN {5, 1, 8} ELSE {61, 57, 64})
       [] Family = "rookcap" -> k' \in (1..64) \ (IF c' = 1 THEN {5, 1, 8} ELSE {61, 57, 64})   \* capturer's king
       [] Family = "terminal" -> k' \in 1..64    \* strong side's king
       [] Family \in {"mating", "avoid"} -> k' \in {s \in 1..64 : File(s) \in {1, 8} \/ Rank(s) \in {1, 8}}   \* the bare king, on the edge
       [] Family = "terminal2" -> k' \in {1, 8, 57, 64}                                                     \* the king that has no move, in a corner
       [] Family = "minor" -> k' \in {1, 8, 57, 64}                                                         \* the defending king, in a corner
       [] Family = "perp" -> k' \in {s \in 1..64 : File(s) \in {1, 8} \/ Rank(s) \in {1, 8}}                 \* the king that is checked for ever, on the edge
       [] Family = "ep" -> k' \in 1..8           \* file of the capturing pawn
       [] Family = "promo" -> k' \in 1..8        \* file of the pawn
       [] Family = "ep2" -> k' \in 2..7          \* file of the pawn that double-stepped
       [] OTHER -> k' = 0

\* sampling hash: the division terms break the arithmetic regularity of idx (every residue class is populated);
\* used primed as a guard of Level2, so that members outside the sample are not even generated
Kept == (idx + (idx \div 7) + (idx \div 61) + 5 * k + c) % Sample = Offset % Sample

Level2 ==
  /\ stage = 1 /\ stage' = 2 /\ UNCHANGED <<c, k>>
  /\ CASE Family = "castle" ->
            \E pc \in {0, Q, R, B, N, P} : \E sq \in 1..64 :
              /\ (pc = 0 => sq = 1)
              /\ (pc # 0 => sq \notin ({k} \cup (IF c = 0 THEN {5, 1, 8} ELSE {61, 57, 64})))
              /\ (pc = P => sq \in 9..56)
              /\ pos' = CastleMember(c, k, pc, sq)
              /\ idx' = 64 * pc + sq
       [] Family = "rookcap" ->
            \E pc \in {Q, R, B, N} : \E sq \in 1..64 :
              /\ sq \notin ({k} \cup (IF c = 1 THEN {5, 1, 8} ELSE {61, 57, 64}))
              /\ pos' = RookCapMember(c, k, pc, sq)
              /\ idx' = 64 * pc + sq
       [] Family = "terminal" ->
            \* king + queen / rook (colour c) against the bare king, the bare king to move: which placements are finished games
            \E pc \in {Q, R} : \E sq \in (1..64) \ {k} : \E wk \in (1..64) \ {k, sq} :
              /\ pos' = [b |-> Place(Place(Place(Empty, k, Pc(c, K)), sq, Pc(c, pc)), wk, Pc(1 - c, K)), stm |-> 1 - c, cr |-> {}, ep |-> 0]
              /\ idx' = pc + 8 * sq + 512 * wk
       [] Family \in {"mating", "avoid"} ->
            \* king + queen / rook (colour c) near the bare king (on the edge, square k).  "mating": the strong side to move;
            \* "avoid": the bare king to move.  Which members have a mate in one / moves that walk into one is decided by Emit...
            \E pc \in {Q, R} : \E sk \in (1..64) \ {k} : \E sq \in (1..64) \ {k, sk} :
              /\ Dist(sk, k) \in 2..3
              /\ pos' = [b |-> Place(Place(Place(Empty, sk, Pc(c, K)), sq, Pc(c, pc)), k, Pc(1 - c, K)),
                         stm |-> IF Family = "mating" THEN c ELSE 1 - c, cr |-> {}, ep |-> 0]
              /\ idx' = pc + 8 * sq + 512 * sk
       [] Family = "terminal2" ->
            \* finished games in which the side to move still HAS a man besides its king (pinned, blocked or just unable to help):
            \* king in the corner with one own man next to it, against king + queen / rook / bishop
            \E pc \in {Q, R, B} : \E wpc \in {B, N, P} : \E sk \in (1..64) \ {k} : \E sq \in (1..64) \ {k, sk} : \E wsq \in (1..64) \ {k, sk, sq} :
              /\ Dist(sk, k) = 2 /\ Dist(wsq, k) = 1
              /\ pos' = [b |-> Place(Place(Place(Place(Empty, sk, Pc(c, K)), sq, Pc(c, pc)), k, Pc(1 - c, K)), wsq, Pc(1 - c, wpc)),
                         stm |-> 1 - c, cr |-> {}, ep |-> 0]
              /\ idx' = pc + 8 * sq + 512 * sk + 7 * wsq + wpc
       [] Family = "minor" ->
            \* king + one minor piece (colour c, to move) against king + one minor piece or pawn standing next to its own king in
            \* the corner: the only mates of such material have the defender's own man take the last flight square
            \E pc \in {B, N} : \E wpc \in {B, N, P} : \E sk \in (1..64) \ {k} : \E sq \in (1..64) \ {k, sk} : \E wsq \in (1..64) \ {k, sk, sq} :
              /\ Dist(sk, k) = 2 /\ Dist(wsq, k) = 1
              /\ pos' = [b |-> Place(Place(Place(Place(Empty, sk, Pc(c, K)), sq, Pc(c, pc)), k, Pc(1 - c, K)), wsq, Pc(1 - c, wpc)),
                         stm |-> c, cr |-> {}, ep |-> 0]
              /\ idx' = pc + 8 * sq + 512 * sk + 7 * wsq + wpc
       [] Family = "perp" ->
            \* perpetual check against the side that is AHEAD: king + queen (colour c, to move) against a king on the edge (square k)
            \* with at most one pawn next to it and two rooks and a pawn far away (ballast: the checked side is ahead in material and
            \* has nothing but its king's steps).  Which members hold a FORCED perpetual is decided by EmitPerp from Chess.tla alone.
            \E qs \in (1..64) \ {k} : \E sk \in {19, 22, 43, 46} \ {k, qs} : \E pw \in (0..64) \ {k, qs, sk} :
              LET far == IF Rank(k) >= 5 THEN <<9, 10, 18>> ELSE <<49, 50, 42>>
                  v == 1 - c
                  b0 == Place(Place(Place(Empty, sk, Pc(c, K)), qs, Pc(c, Q)), k, Pc(v, K))
                  b1 == IF pw = 0 THEN b0 ELSE Place(b0, pw, Pc(v, P))
                  b2 == Place(Place(Place(b1, far[1], Pc(v, R)), far[2], Pc(v, R)), far[3], Pc(v, P))
              IN /\ Dist(sk, k) >= 3
                 /\ (pw # 0 => Dist(pw, k) = 1 /\ Rank(pw) \in 2..7)
                 /\ {far[1], far[2], far[3]} \cap {k, qs, sk, pw} = {}
                 /\ pos' = [b |-> b2, stm |-> c, cr |-> {}, ep |-> 0]
                 /\ idx' = qs + 64 * pw + 4096 * sk
       [] Family = "ep" ->
            \E vf \in {k - 1, k + 1} \cap (1..8) : \E ok \in 1..64 : \E pc \in {0, Q, R, B} : \E sq \in 1..64 :
              LET r == EpRank(c)  cap == Sq(k, r)  vic == Sq(vf, r)  tgt == IF c = 0 THEN vic + 8 ELSE vic - 8
                  org == IF c = 0 THEN vic + 16 ELSE vic - 16 IN
              \* own king on the capture rank or on a line through one of the pawns' squares (where pins arise)
              /\ ok \notin {cap, vic, tgt, org}
              /\ (Rank(ok) = r \/ \E d \in 5..8 : \E j \in 1..Len(Ray[ok][d]) : Ray[ok][d][j] \in {cap, vic, tgt}
                  \/ File(ok) \in {k, vf})
              /\ (pc = 0 => sq = 1)
              /\ (pc # 0 => sq \notin {cap, vic, tgt, org, ok} /\ sq \notin {1, 8, 57, 64})
              /\ pos' = EpMember(c, k, vf, ok, pc, sq)
              /\ idx' = vf + 8 * ok + 512 * pc + 4096 * sq
       [] Family = "ep2" ->
            \E ok \in 1..64 : \E pc \in {0, Q, R, B} : \E sq \in 1..64 :
              LET r == EpRank(c)  capA == Sq(k - 1, r)  capB == Sq(k + 1, r)  vic == Sq(k, r)  tgt == IF c = 0 THEN vic + 8 ELSE vic - 8
                  org == IF c = 0 THEN vic + 16 ELSE vic - 16 IN
              /\ ok \notin {capA, capB, vic, tgt, org}
              /\ (Rank(ok) = r \/ \E d \in 5..8 : \E j \in 1..Len(Ray[ok][d]) : Ray[ok][d][j] \in {capA, capB, vic, tgt}
                  \/ File(ok) \in {k - 1, k, k + 1})
              /\ (pc = 0 => sq = 1)
              /\ (pc # 0 => sq \notin {capA, capB, vic, tgt, org, ok} /\ sq \notin {1, 8, 57, 64})
              /\ pos' = Ep2Member(c, k, ok, pc, sq)
              /\ idx' = 8 * ok + 512 * pc + 4096 * sq
       [] Family = "promo" ->
            \E ok \in 1..64 : \E pc \in {0, Q, R, B, N} : \E sq \in 1..64 :
              LET r == IF c = 0 THEN 7 ELSE 2  lr == IF c = 0 THEN 8 ELSE 1  pw == Sq(k, r) IN
              /\ ok # pw
              /\ (pc = 0 => sq = 1)
              \* the enemy man on the last rank next to / in front of the pawn, or anywhere giving check
              /\ (pc # 0 => sq \notin {pw, ok} /\ ((Rank(sq) = lr /\ File(sq) \in {k - 1, k, k + 1}) \/ (sq + ok) % 5 = 0))
              /\ pos' = PromoMember(c, k, ok, pc, sq)
              /\ idx' = ok + 64 * pc + 512 * sq
       [] OTHER -> FALSE
  /\ Kept'

Next == Level1 \/ Level2
Spec == Init /\ [][Next]_vars

\* two-ply expectations: after each special move (landing on a corner, castling, en passant, promotion) what the rules
\* allow the other side
Then(p) == LET S == {m \in Legal(p) : m[2] \in {1, 8, 57, 64} \/ IsCastle(p, m) \/ IsEpCapture(p, m) \/ m[3] # 0} IN
           {[m |-> m, succ |-> Encode(Apply(p, m)), text |-> MoveText(m), legal |-> Legal(Apply(p, m))] : m \in S}
\* one line per well-formed member: encoded position and what the rules say
Emit == (stage = 2 /\ Kept /\ Cardinality(Kings(pos.b, 0)) = 1 /\ Cardinality(Kings(pos.b, 1)) = 1 /\ WellFormed(pos)) =>
          PrintT(<<"FAM", ToJson([pos |-> Encode(pos), legal |-> Legal(pos), caps |-> LegalCaptures(pos),
                                  chk |-> <<InCheck(pos.b, 0), InCheck(pos.b, 1)>>, then |-> Then(pos)])>>)
\* finished games only: checkmates and stalemates of K+Q / K+R against K, printed as FEN (sessions of the real binary are
\* run on every one of them: a go must be answered with the null move)
EmitTerminal == (stage = 2 /\ Kept /\ Cardinality(Kings(pos.b, 0)) = 1 /\ Cardinality(Kings(pos.b, 1)) = 1 /\ WellFormed(pos) /\ Legal(pos) = {}) =>
                  PrintT(<<"TERM", ToFen(pos, 0, 1), InCheck(pos.b, pos.stm)>>)
\* mate in one: the moves of the side to move that give checkmate; a position is "dangerous" for its mover when the
\* opponent could answer some but not all of its moves with a mate in one
Mates(p) == {m \in Legal(p) : LET q == Apply(p, m) IN InCheck(q.b, q.stm) /\ Legal(q) = {}}
Losing(p) == {m \in Legal(p) : Mates(Apply(p, m)) # {}}
Sound == stage = 2 /\ Kept /\ Cardinality(Kings(pos.b, 0)) = 1 /\ Cardinality(Kings(pos.b, 1)) = 1 /\ WellFormed(pos)
EmitMating == (Sound /\ Mates(pos) # {}) => PrintT(<<"MATE1", ToFen(pos, 0, 1), {MoveText(m) : m \in Mates(pos)}>>)
EmitAvoid == (Sound /\ LET L == Losing(pos) IN L # {} /\ L # Legal(pos)) =>
               PrintT(<<"AVOID", ToFen(pos, 0, 1), {MoveText(m) : m \in Losing(pos)}>>)
\* forced perpetual: a quiet checking move m1 of the side to move after which the only legal reply m2 is a quiet king step, the
\* move back (m1 reversed) is check again and the only legal reply to it is m2 reversed - which restores the position.  Printed
\* with the two texts, from which the drivers build "one cycle" / "two cycles and a half" histories.
Rev(m) == <<m[2], m[1], 0>>
Only(S) == CHOOSE x \in S : TRUE
PerpLines(p) ==
  {m1 \in Legal(p) : /\ m1[3] = 0 /\ p.b[m1[2]] = 0
                     /\ LET p1 == Apply(p, m1) IN
                        /\ InCheck(p1.b, p1.stm) /\ Cardinality(Legal(p1)) = 1
                        /\ LET m2 == Only(Legal(p1))  p2 == Apply(p1, m2) IN
                           /\ m2[3] = 0 /\ p1.b[m2[2]] = 0 /\ Rev(m1) \in Legal(p2)
                           /\ LET p3 == Apply(p2, Rev(m1)) IN
                              /\ InCheck(p3.b, p3.stm) /\ Legal(p3) = {Rev(m2)}
                              /\ Identity(Apply(p3, Rev(m2))) = Identity(p)}
EmitPerp == (Sound /\ PerpLines(pos) # {}) =>
              PrintT(<<"PERP", ToFen(pos, 0, 1), {<<MoveText(m1), MoveText(Only(Legal(Apply(pos, m1))))>> : m1 \in PerpLines(pos)}>>)
=============================================================================
