----------------------------- MODULE SliceProof -----------------------------
(***************************************************************************)
(* The engine's time-slice formula (time_control.rs, after the repair of   *)
(* the negative-clock defect) transcribed into integer arithmetic, and the *)
(* slice contract of SliceContract.tla checked for it by Apalache for ALL  *)
(* integer clocks and increments (unbounded) and every movestogo in        *)
(* 1..MaxMtg.  Variant = "pinned" is the formula of the pinned commit      *)
(* (the increment branch not capped by the clock): the contract fails.     *)
(*                                                                         *)
(* This is a statement about the transcription; it is bound to the code by *)
(* C09's slice events, where TLC compares CodeSlice with the slice the     *)
(* real calculate_time_slice returned for the same tokens (the comparison  *)
(* is reported as coverage, never as a violation: a retuned formula that   *)
(* still meets the contract is not a defect, it only means the unbounded   *)
(* argument no longer speaks about the code).                              *)
(***************************************************************************)
EXTENDS Integers, SliceContract

CONSTANTS
  \* @type: Int;
  clock,
  \* @type: Int;
  inc,
  \* @type: Int;
  mtg,
  \* @type: Str;
  Variant

MaxMtg == 100000

VARIABLE
  \* @type: Int;
  slice

CInit == clock \in Int /\ inc \in Int /\ mtg \in 1..MaxMtg /\ Variant = "fixed"
CInitPinned == clock \in Int /\ inc \in Int /\ mtg \in 1..MaxMtg /\ Variant = "pinned"
Init == slice = CodeSliceOf(clock, inc, mtg, Variant)
Next == UNCHANGED slice
Contract == SliceOK(clock, inc, mtg, slice)
=============================================================================
