------------------------------- MODULE MC_Game -------------------------------
(* TLC-only wrapper of ChessGame: seeds read from a JSON file (encoded positions). *)
EXTENDS ChessGame, Json, IOUtils
SeedRecs == ndJsonDeserialize(IOEnv.SEEDS)
SeedsC == {Decode(SeedRecs[i]) : i \in 1..Len(SeedRecs)}
MaxPlyC == atoi(IOEnv.MAXPLY)
\* anti-vacuity counters: how many special successors were generated from the current object
=============================================================================
