SPECIFICATION Spec
INVARIANT EmitTerminal
CHECK_DEADLOCK FALSE
