SPECIFICATION Spec
INVARIANT Report
POSTCONDITION Accepted
CHECK_DEADLOCK FALSE
