----------------------------- MODULE TimeControl -----------------------------
(***************************************************************************)
(* The time-slice contract of `go`, in integer arithmetic, and the token   *)
(* scan of the go command (uci::parse_go_command).                         *)
(*                                                                         *)
(* The property bounds the slice from above; it does not prescribe it:     *)
(*   - only the mover's clock and increment matter;                        *)
(*   - never more than the remaining clock;                                *)
(*   - with more than the 100 ms margin left: at most 80% of               *)
(*     (clock - margin) / movestogo (30 when not told), rounded to the     *)
(*     nearest millisecond;                                                *)
(*   - with no usable clock and no increment: zero.                        *)
(***************************************************************************)
EXTENDS Integers, Sequences, IOUtils, SliceContract

\* go tokens -> [wtime, btime, winc, binc, mtg] ; a keyword consumes the next token, anything else is skipped;
\* a keyword in last position has no value and is skipped
Keywords == {"wtime", "btime", "winc", "binc", "movestogo"}
RECURSIVE Scan(_, _, _)
Scan(toks, i, acc) ==
  IF i + 1 > Len(toks) THEN acc
  ELSE IF toks[i] \in Keywords
       THEN Scan(toks, i + 2, [acc EXCEPT ![toks[i]] = atoi(toks[i + 1])])
       ELSE Scan(toks, i + 1, acc)
ParseGo(toks) == Scan(toks, 1, [wtime |-> 0, btime |-> 0, winc |-> 0, binc |-> 0, movestogo |-> 0])
\* movestogo 0 stands for "not told"
MoverClock(tc, stm) == IF stm = 0 THEN tc.wtime ELSE tc.btime
MoverInc(tc, stm) == IF stm = 0 THEN tc.winc ELSE tc.binc
Mtg(tc) == IF tc.movestogo = 0 THEN DefaultMtg ELSE tc.movestogo
=============================================================================
