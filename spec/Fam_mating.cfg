SPECIFICATION Spec
INVARIANT EmitMating
CHECK_DEADLOCK FALSE
