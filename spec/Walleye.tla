------------------------------ MODULE Walleye ------------------------------
(***************************************************************************)
(* The UCI process: the I/O thread of uci::play_game_uci with its polling  *)
(* loop (find_and_play_best_move), the search thread (engine::             *)
(* get_best_move, abstracted at its boundary: what it sends and when it    *)
(* stops - its inside is Search.tla), the mpsc channel between them and    *)
(* the deadline.  One action per critical section of the code.             *)
(*                                                                         *)
(* Chess content is abstract here: a position is [id, n] with n legal root *)
(* moves 1..n (0 = checkmate / stalemate); TraceUci.tla instantiates the   *)
(* real rules when recorded sessions of the real binary are validated.     *)
(*                                                                         *)
(* Time is a countdown to the deadline that only runs while a go is being  *)
(* served (a bounded absolute clock would hide or invent non-progress).    *)
(*                                                                         *)
(* Bug* constants switch on behaviours the repaired code does not have     *)
(* (two of them are the pinned commit's, five are seeded-defect shapes);   *)
(* the corresponding configurations are expected to FAIL.                  *)
(***************************************************************************)
EXTENDS Integers, Sequences, FiniteSets, TLC

\* (the @type comments are Apalache annotations; TLC and SANY ignore them)
CONSTANTS
  \* @type: Int;
  MaxCmds,      \* commands read after the handshake before end of input
  \* @type: Int;
  MaxMoves,     \* root move counts explored: 0..MaxMoves
  \* @type: Int;
  MaxSlice,     \* time slices explored: 0..MaxSlice ticks
  \* @type: Int;
  MaxSends,     \* improvements a search may report
  \* @type: Bool;
  BugNoAnswerWhenNoMoves,   \* C08: go in a terminal position is handed to the search thread
  \* @type: Bool;
  BugEofSpins,              \* C17: end of input is read as an endless stream of empty lines
  \* @type: Bool;
  BugSharedChannel,         \* C03: one channel for the whole session (leftovers reach the next go)
  \* @type: Bool;
  BugFallbackBeforeLoop,    \* C08: the fallback send happens only before the first root move
  \* @type: Bool;
  BugStaleGameOver,         \* C08: the terminal test uses a flag computed at `position` time
  \* @type: Bool;
  BugGameOverLatch,         \* C16: a "game is over" latch set by a go in a finished game and cleared by ucinewgame only
  \* @type: Bool;
  BugGivesUpOnGarbage       \* C17: a counter of consecutive lines that were not understood; the loop returns when it reaches two

VARIABLES
  \* @type: Int;
  nread,      \* commands consumed so far
  \* @type: Str;
  io,         \* "read" | "poll" | "dead"
  \* @type: {id: Int, n: Int};
  board,      \* [id, n]: the engine's current position
  \* @type: Seq(Int);
  table,      \* repetition record: sequence of position ids since the last position command
  \* @type: {over: Bool, unk: Int};
  hid,        \* hidden session state of the Bug* variants: a game-over flag, a count of lines not understood (the repaired code has neither)
  \* @type: Int;
  left,       \* ticks until the deadline of the go being served
  \* @type: Seq({pos: Int, mv: Int});
  chan,       \* channel search thread -> I/O thread: sequence of [pos, mv]
  \* @type: {pos: Int, mv: Int};
  best,       \* last board received in the polling loop (NoBest = none)
  \* @type: Str;
  srch,       \* "none" | "run" | "done": the search thread of the current go
  \* @type: {id: Int, n: Int};
  root,       \* the position the running search thread was given
  \* @type: Int;
  sent,       \* boards sent by the current search thread
  \* @type: Bool;
  started,    \* has the search thread begun its first root move
  \* @type: Str;
  pending,    \* "none" | "go" | "isready": a request not yet answered
  \* @type: Seq({t: Str, a: Int, b: Int});
  out,        \* history: lines printed
  \* @type: Int;
  nextId,     \* fresh position ids
  \* @type: Int;
  ngo,        \* go commands accepted so far
  \* @type: Set(Int);
  owed,       \* positions whose ANSWERED search still owes the info line of the last board it handed over
  \* @type: Str;
  stage,      \* where the search thread stands with an improvement: "idle" | "accepted" (clock test passed) | "sent" (board handed over, line not yet printed)
  \* @type: Int;
  cur         \* the root move of that improvement
vars == <<nread, io, board, table, hid, left, chan, best, srch, root, sent, started, pending, out, nextId, ngo, owed, stage, cur>>

Pos(id, n) == [id |-> id, n |-> n]
NoBest == [pos |-> -1, mv |-> 0]
Line(t, a, b) == [t |-> t, a |-> a, b |-> b]

Init == /\ nread = 0 /\ io = "read" /\ board = Pos(0, MaxMoves) /\ table = <<>> /\ hid = [over |-> FALSE, unk |-> 0]
        /\ left = 0 /\ chan = <<>> /\ best = NoBest /\ srch = "none" /\ root = Pos(0, 0) /\ sent = 0 /\ started = FALSE
        /\ pending = "none" /\ out = <<>> /\ nextId = 1 /\ ngo = 0 /\ owed = {} /\ stage = "idle" /\ cur = 0

(***************************************************************************)
(* I/O thread: read one line and dispatch.                                 *)
(***************************************************************************)
IsReady == /\ io = "read" /\ nread < MaxCmds /\ nread' = nread + 1
           /\ out' = Append(out, Line("readyok", 0, 0))
           /\ hid' = [hid EXCEPT !.unk = 0]
           /\ UNCHANGED <<io, board, table, left, chan, best, srch, root, sent, started, pending, nextId, ngo, owed, stage, cur>>

\* unknown command, empty line, setoption: nothing changes
Ignored == /\ io = "read" /\ nread < MaxCmds /\ nread' = nread + 1
           /\ hid' = IF BugGivesUpOnGarbage THEN [hid EXCEPT !.unk = @ + 1] ELSE hid
           /\ io' = IF BugGivesUpOnGarbage /\ hid.unk + 1 >= 2 THEN "dead" ELSE io
           /\ UNCHANGED <<board, table, left, chan, best, srch, root, sent, started, pending, out, nextId, ngo, owed, stage, cur>>

\* ucinewgame: a known command that changes nothing the properties speak about (the repaired code keeps board and record)
NewGame == /\ io = "read" /\ nread < MaxCmds /\ nread' = nread + 1
           /\ hid' = [over |-> IF BugGameOverLatch THEN FALSE ELSE hid.over, unk |-> 0]
           /\ UNCHANGED <<io, board, table, left, chan, best, srch, root, sent, started, pending, out, nextId, ngo, owed, stage, cur>>

\* position X: the record is cleared and rebuilt, the board replaced: a function of the command alone
Position == /\ io = "read" /\ nread < MaxCmds /\ nread' = nread + 1
            /\ \E n \in 0..MaxMoves :
                 /\ board' = Pos(nextId, n)
                 /\ hid' = [over |-> IF BugGameOverLatch THEN hid.over ELSE (n = 0), unk |-> 0]
            /\ table' = <<nextId>>
            /\ nextId' = nextId + 1
            /\ UNCHANGED <<io, left, chan, best, srch, root, sent, started, pending, out, ngo, owed, stage, cur>>

Terminal == IF BugStaleGameOver THEN hid.over ELSE IF BugGameOverLatch THEN (hid.over \/ board.n = 0) ELSE board.n = 0

\* go in a finished game: answered at once with the null move (repaired code)
GoTerminal == /\ io = "read" /\ nread < MaxCmds /\ nread' = nread + 1 /\ ngo' = ngo + 1
              /\ Terminal /\ ~BugNoAnswerWhenNoMoves
              \* (third field: minus the number of legal moves of the position answered with the null move - 0 in a finished game)
              /\ out' = Append(out, Line("bestmove", board.id, 0 - board.n))
              /\ hid' = IF BugGameOverLatch THEN [hid EXCEPT !.over = TRUE] ELSE hid
              /\ UNCHANGED <<io, board, table, left, chan, best, srch, root, sent, started, pending, nextId, owed, stage, cur>>

\* go: slice computed, deadline set, search thread spawned on a copy of board and table
GoAccept == /\ io = "read" /\ nread < MaxCmds /\ nread' = nread + 1 /\ ngo' = ngo + 1
            /\ (~Terminal \/ BugNoAnswerWhenNoMoves)
            /\ \E s \in 0..MaxSlice : left' = s
            /\ io' = "poll" /\ best' = NoBest /\ srch' = "run" /\ root' = board /\ sent' = 0 /\ started' = FALSE
            /\ chan' = IF BugSharedChannel THEN chan ELSE <<>>
            /\ pending' = "go" /\ stage' = "idle" /\ cur' = 0
            /\ UNCHANGED <<board, table, hid, out, nextId, owed>>

Quit == /\ io = "read" /\ nread < MaxCmds /\ nread' = nread + 1 /\ io' = "dead"
        /\ out' = Append(out, Line("exit", 0, 0))
        /\ UNCHANGED <<board, table, hid, left, chan, best, srch, root, sent, started, pending, nextId, ngo, owed, stage, cur>>

Eof == /\ io = "read" /\ nread = MaxCmds
       /\ IF BugEofSpins THEN UNCHANGED <<io, out>> ELSE io' = "dead" /\ out' = Append(out, Line("exit", 1, 0))
       /\ UNCHANGED <<nread, board, table, hid, left, chan, best, srch, root, sent, started, pending, nextId, ngo, owed, stage, cur>>

(***************************************************************************)
(* I/O thread: the polling loop `while !out_of_time || best_move.is_none()`*)
(***************************************************************************)
PollRecv == /\ io = "poll" /\ chan # <<>>
            /\ best' = Head(chan) /\ chan' = Tail(chan)
            /\ UNCHANGED <<nread, io, board, table, hid, left, srch, root, sent, started, pending, out, nextId, ngo, owed, stage, cur>>

\* leaves the loop only when the deadline has passed AND a board was received; prints it and adopts it
PollExit == /\ io = "poll" /\ left = 0 /\ best # NoBest
            /\ out' = Append(out, Line("bestmove", best.pos, best.mv))
            /\ \E n \in 0..MaxMoves : board' = Pos(nextId, n)      \* the position after the engine's own move
            /\ nextId' = nextId + 1
            /\ io' = "read" /\ pending' = "none"
            \* the search thread hands its board over BEFORE it prints the line for it (engine.rs: tx.send, then
            \* send_search_info): a thread that stands between the two when the answer goes out still owes that line
            /\ owed' = IF srch = "run" /\ stage = "sent" THEN owed \cup {root.id} ELSE owed
            /\ UNCHANGED <<nread, table, hid, left, chan, best, srch, root, sent, started, ngo, stage, cur>>

Tick == /\ io = "poll" /\ left > 0 /\ left' = left - 1
        /\ UNCHANGED <<nread, io, board, table, hid, chan, best, srch, root, sent, started, pending, out, nextId, ngo, owed, stage, cur>>

(***************************************************************************)
(* Search thread (boundary behaviour of get_best_move).                    *)
(***************************************************************************)
Send(mv) == chan' = Append(chan, [pos |-> root.id, mv |-> mv])

\* An improvement takes three steps of the search thread, and the I/O thread may run between any two of them:
\* the clock test that admits it (only before the deadline, only a root move) ...
SrchAccept == /\ io = "poll" /\ srch = "run" /\ root.n > 0 /\ left > 0 /\ sent < MaxSends /\ stage = "idle"
              /\ \E m \in 1..root.n : cur' = m
              /\ stage' = "accepted" /\ started' = TRUE
              /\ UNCHANGED <<nread, io, board, table, hid, left, chan, best, srch, root, sent, pending, out, nextId, ngo, owed>>
\* ... the board handed over (while the polling loop of its own go is still there to receive it; afterwards the send fails
\* and the thread dies without printing - the named deviation SrchSendAfterClose, nothing visible) ...
SrchSend == /\ io = "poll" /\ srch = "run" /\ stage = "accepted"
            /\ Send(cur) /\ sent' = sent + 1 /\ stage' = "sent"
            /\ UNCHANGED <<nread, io, board, table, hid, left, best, srch, root, started, pending, out, nextId, ngo, owed, cur>>
\* ... and the info line printed (inside its own go: not recorded in `out`; after the answer: OrphanLastLine)
SrchPrint == /\ io = "poll" /\ srch = "run" /\ stage = "sent"
             /\ stage' = "idle"
             /\ UNCHANGED <<nread, io, board, table, hid, left, chan, best, srch, root, sent, started, pending, out, nextId, ngo, owed, cur>>

\* the first root move is being searched when nothing has been accepted yet
SrchStart == /\ srch = "run" /\ root.n > 0 /\ ~started /\ started' = TRUE
             /\ UNCHANGED <<nread, io, board, table, hid, left, chan, best, srch, root, sent, pending, out, nextId, ngo, owed, stage, cur>>

\* deadline seen at the head of the root loop: fallback send if nothing was sent, then return
SrchStop == /\ srch = "run" /\ root.n > 0 /\ left = 0 /\ (stage = "idle" \/ io # "poll")
            /\ IF sent = 0 /\ (~BugFallbackBeforeLoop \/ ~started)
               THEN Send(1) /\ sent' = 1
               ELSE UNCHANGED <<chan, sent>>
            /\ srch' = "done"
            /\ UNCHANGED <<nread, io, board, table, hid, left, best, root, started, pending, out, nextId, ngo, owed, stage, cur>>

\* no root moves: the thread returns without sending
SrchNoMoves == /\ srch = "run" /\ root.n = 0 /\ srch' = "done"
               /\ UNCHANGED <<nread, io, board, table, hid, left, chan, best, root, sent, started, pending, out, nextId, ngo, owed, stage, cur>>

\* The search thread of an ANSWERED go prints the line it owes, at any later moment - possibly while the next go is already
\* being served, and possibly with a small `time` field (the line was formatted before the thread was pre-empted).  Each
\* answered search owes at most one such line.  TraceUci tolerates exactly this (Foreign).
OrphanLastLine == /\ \E p \in owed : /\ owed' = owed \ {p}
                                     /\ out' = Append(out, Line("info-of-previous-search", p, 0))
                  /\ UNCHANGED <<nread, io, board, table, hid, left, chan, best, srch, root, sent, started, pending, nextId, ngo, stage, cur>>

IoStep == IsReady \/ Ignored \/ NewGame \/ Position \/ GoTerminal \/ GoAccept \/ Quit \/ Eof \/ PollRecv \/ PollExit
SrchStep == SrchAccept \/ SrchSend \/ SrchPrint \/ SrchStart \/ SrchStop \/ SrchNoMoves \/ OrphanLastLine
Next == IoStep \/ Tick \/ SrchStep

Fairness == /\ WF_vars(IsReady \/ Ignored \/ NewGame \/ Position \/ GoTerminal \/ GoAccept \/ Quit \/ Eof)
            /\ WF_vars(PollRecv) /\ WF_vars(PollExit) /\ WF_vars(Tick)
            /\ WF_vars(SrchStop) /\ WF_vars(SrchNoMoves) /\ WF_vars(SrchSend) /\ WF_vars(SrchPrint)
Spec == Init /\ [][Next]_vars /\ Fairness

(***************************************************************************)
(* Properties.                                                             *)
(***************************************************************************)
NBest == Cardinality({i \in 1..Len(out) : out[i].t = "bestmove"})
\* C03: exactly one answer per go (one may still be pending), none without a go
OneAnswerPerGo == NBest <= ngo /\ NBest >= ngo - (IF pending = "go" THEN 1 ELSE 0)
\* C03: the board the polling loop holds is a root move of the position the go was given in
AnswerFitsPosition == (io = "poll" /\ best # NoBest) => (best.pos = board.id /\ best.mv \in 1..board.n)
\* what the polling loop holds always belongs to the search it is waiting for
ChannelFresh == \A i \in 1..Len(chan) : io = "poll" => chan[i].pos = root.id /\ chan[i].mv \in 1..root.n
\* C09 (model level): bestmove is never printed before the deadline - by PollExit's guard; as an invariant on the
\* only state in which it can be printed next
NoEarlyAnswer == (io = "poll" /\ ENABLED PollExit) => left = 0
TypeOk == /\ io \in {"read", "poll", "dead"} /\ left \in 0..MaxSlice /\ sent \in 0..(MaxSends + 1)
          /\ pending \in {"none", "go"} /\ srch \in {"none", "run", "done"} /\ stage \in {"idle", "accepted", "sent"}
\* C16 (structural): right after a position command board and record depend on that command only
RecordFresh == table = <<>> \/ Len(table) = 1

\* C18 (model level): every line that surfaces outside its own go belongs to a search that HAS been answered, and each
\* answered search prints at most one such line (two earlier searches may each owe one: two stale lines inside one go are
\* possible, three from one search are not)
StaleOf(p) == {k \in 1..Len(out) : out[k].t = "info-of-previous-search" /\ out[k].a = p}
EachSearchAtMostOneLateLine == \A k \in 1..Len(out) : out[k].t = "info-of-previous-search" => Cardinality(StaleOf(out[k].a)) <= 1
LateLinesOnlyFromAnsweredSearches ==
  \A k \in 1..Len(out) : out[k].t = "info-of-previous-search" => \E j \in 1..(k - 1) : out[j].t = "bestmove" /\ out[j].a = out[k].a
AtMostOneStaleLinePerGo == EachSearchAtMostOneLateLine /\ LateLinesOnlyFromAnsweredSearches

\* C16 / C08 (model level): the null move is the answer of finished games only - whatever games went before
NullMoveOnlyWhenOver == \A i \in 1..Len(out) : out[i].t = "bestmove" => out[i].b >= 0
\* C17 (model level): the process ends when it is told to (quit, end of input) and never otherwise
DiesOnlyWhenTold == io = "dead" => \E i \in 1..Len(out) : out[i].t = "exit"

\* liveness: C08 every go is answered; C17 the process ends after quit / end of input
GoAnswered == (pending = "go") ~> (pending = "none")
Terminates == <>(io = "dead")
=============================================================================
