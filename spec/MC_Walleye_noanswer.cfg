SPECIFICATION Spec
CONSTANTS
  MaxCmds = 3
  MaxMoves = 2
  MaxSlice = 2
  MaxSends = 2
  BugNoAnswerWhenNoMoves = TRUE
  BugEofSpins = FALSE
  BugSharedChannel = FALSE
  BugFallbackBeforeLoop = FALSE
  BugStaleGameOver = FALSE
  BugGameOverLatch = FALSE
  BugGivesUpOnGarbage = FALSE
INVARIANT TypeOk
INVARIANT OneAnswerPerGo
INVARIANT AnswerFitsPosition
INVARIANT ChannelFresh
INVARIANT NoEarlyAnswer
INVARIANT RecordFresh
INVARIANT NullMoveOnlyWhenOver
INVARIANT DiesOnlyWhenTold
INVARIANT AtMostOneStaleLinePerGo
PROPERTY GoAnswered
PROPERTY Terminates
CHECK_DEADLOCK FALSE
