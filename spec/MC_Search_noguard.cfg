SPECIFICATION Spec
CONSTANTS
  RepGE = TRUE
  RootGuard = FALSE
  MaxPly = 100
  PlyGuard = TRUE
INVARIANT InvPrefix
INVARIANT InvSends
INVARIANT InvRep
INVARIANT InvScores
INVARIANT InvExact
INVARIANT InvRepDraw
INVARIANT InvMateInOne
CHECK_DEADLOCK FALSE
