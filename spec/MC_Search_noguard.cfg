SPECIFICATION Spec
CONSTANTS
  RepGE = TRUE
  RootGuard = FALSE
INVARIANT InvPrefix
INVARIANT InvSends
INVARIANT InvRep
INVARIANT InvScores
INVARIANT InvExact
INVARIANT InvRepDraw
INVARIANT InvMateInOne
CHECK_DEADLOCK FALSE
