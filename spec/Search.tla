------------------------------- MODULE Search -------------------------------
(***************************************************************************)
(* The search as a function of (game tree, move ordering, expiry index).   *)
(*                                                                         *)
(* A tree T is a record of sequences indexed by node id:                   *)
(*   T.kids[n]  ordered successors by all legal moves (already in the      *)
(*              order the engine tries them)                               *)
(*   T.caps[n]  ordered successors by capture-only generation              *)
(*   T.eval[n]  static evaluation from the mover's point of view           *)
(*   T.chk[n]   is the side to move in check                               *)
(*   T.key[n]   repetition key of the position                             *)
(*   T.null[n]  the node reached by passing (0 = not provided)             *)
(*   T.roots    ordered root successors                                    *)
(*                                                                         *)
(* Ref... is the PROPERTY's own definition of the value of a shallow       *)
(* search (plain negamax; leaf rules: repetition, check extension,         *)
(* capture quiescence, mate, stalemate).                                   *)
(* AB / Quiesce / Run are an implementation-shaped transcript of           *)
(* engine.rs (alpha_beta_search, quiesce, get_best_move) with a clock      *)
(* that answers "expired" from its k-th query on; every alpha_beta_search  *)
(* node, every quiesce node, the head of the root loop and the root's      *)
(* accept test are clock queries.                                          *)
(***************************************************************************)
EXTENDS Integers, Sequences, FiniteSets, TLC

MATE == 100000
POSINF == 9999999
NEGINF == -POSINF
MateWindow == 15
Max(a, b) == IF a > b THEN a ELSE b
Min(a, b) == IF a < b THEN a ELSE b

\* repetition record: function key -> count
Cnt(rep, k) == IF k \in DOMAIN rep THEN rep[k] ELSE 0
Inc(rep, k) == IF k \in DOMAIN rep THEN [rep EXCEPT ![k] = @ + 1] ELSE rep @@ (k :> 1)
Dec(rep, k) == IF k \in DOMAIN rep THEN [rep EXCEPT ![k] = @ - 1] ELSE rep
Norm(rep) == [k \in {x \in DOMAIN rep : rep[x] # 0} |-> rep[k]]

(***************************************************************************)
(* Reference value.                                                        *)
(***************************************************************************)
RECURSIVE QRef(_, _), QRefL(_, _, _, _), Ref(_, _, _, _, _), RefL(_, _, _, _, _, _, _)
QRef(T, n) == QRefL(T, T.caps[n], 1, T.eval[n])
QRefL(T, cs, i, acc) == IF i > Len(cs) THEN acc ELSE QRefL(T, cs, i + 1, Max(acc, -QRef(T, cs[i])))
Ref(T, n, d, ply, rep) ==
  IF Cnt(rep, T.key[n]) >= 2 THEN 0                     \* third occurrence: draw
  ELSE IF d = 0 /\ ~T.chk[n] THEN QRef(T, n)            \* quiescence
  ELSE LET dd == IF d = 0 THEN 1 ELSE d IN              \* check extension
       IF Len(T.kids[n]) = 0 THEN (IF T.chk[n] THEN -(MATE - ply) ELSE 0)
       ELSE RefL(T, T.kids[n], 1, dd - 1, ply + 1, Inc(rep, T.key[n]), NEGINF)
RefL(T, ks, i, d, ply, rep, acc) ==
  IF i > Len(ks) THEN acc ELSE RefL(T, ks, i + 1, d, ply, rep, Max(acc, -Ref(T, ks[i], d, ply, rep)))
RootRef(T, D, rep) == RefL(T, T.roots, 1, D - 1, 1, rep, NEGINF)
\* value of one root move
RootMoveRef(T, r, D, rep) == -Ref(T, r, D - 1, 1, rep)

(***************************************************************************)
(* Implementation-shaped search.  st = [q, k, rep, nodes]:                 *)
(* q clock queries so far, k expiry index, nodes the node counter.         *)
(* RepGE = TRUE models the repaired repetition test (count >= 2), FALSE    *)
(* the pinned commit (count = 2).                                          *)
(***************************************************************************)
Clock(st) == [exp |-> st.q >= st.k, st |-> [st EXCEPT !.q = @ + 1]]
NodeInc(st) == [st EXCEPT !.nodes = @ + 1]
Rem(T, st, n) == [st EXCEPT !.rep = Dec(@, T.key[n])]
IsRep(repGE, rep, k) == IF repGE THEN Cnt(rep, k) >= 2 ELSE Cnt(rep, k) = 2

RECURSIVE Quiesce(_, _, _, _, _), QLoop(_, _, _, _, _, _)
\* (since the repair of the late-answer defect the capture search consults the clock at every node, like AB)
Quiesce(T, n, a, b, st) ==
  LET t == Clock(st) IN
  IF t.exp THEN [v |-> NEGINF, st |-> t.st]
  ELSE
  LET s1 == NodeInc(t.st)  sp == T.eval[n] IN
  IF sp >= b THEN [v |-> b, st |-> s1]
  ELSE QLoop(T, T.caps[n], 1, IF a < sp THEN sp ELSE a, b, s1)
QLoop(T, cs, i, a, b, st) ==
  IF i > Len(cs) THEN [v |-> a, st |-> st]
  ELSE LET r == Quiesce(T, cs[i], -b, -a, st)  sc == -r.v IN
       IF sc >= b THEN [v |-> b, st |-> r.st]
       ELSE QLoop(T, cs, i + 1, IF sc > a THEN sc ELSE a, b, r.st)

\* Sw = [repGE, rootGuard, maxPly, plyGuard]: switches for the bug variants.  maxPly is the length of the per-ply tables
\* (pv / current line / killers, MAX_DEPTH = 100 in search.rs); check extensions and the null move's ply offset can carry a
\* line past it.  plyGuard = TRUE (repaired): a node at ply >= maxPly is a horizon node (capture search only);
\* FALSE (before the repair): the table access at such a node is out of bounds - st.oob records the panic.
RECURSIVE AB(_, _, _, _, _, _, _, _, _), Loop(_, _, _, _, _, _, _, _, _, _, _), After(_, _, _, _, _, _, _, _, _, _, _, _)
AB(T, Sw, n, d, ply, a, b, allowNull, st) ==
  LET t == Clock(st) IN
  IF t.exp THEN [v |-> NEGINF, st |-> t.st]
  ELSE IF Sw.plyGuard /\ ply >= Sw.maxPly THEN Quiesce(T, n, a, b, t.st)
  ELSE
  LET s1 == NodeInc(t.st) IN
  IF IsRep(Sw.repGE, s1.rep, T.key[n]) THEN [v |-> 0, st |-> s1]
  ELSE
  LET s2 == [s1 EXCEPT !.rep = Inc(@, T.key[n])] IN
  IF d = 0 /\ ~T.chk[n] THEN Quiesce(T, n, a, b, Rem(T, s2, n))
  ELSE
  LET dd == IF d = 0 THEN 1 ELSE d
      a1 == Max(a, -MATE + ply)
      b1 == Min(b, MATE - ply) IN
  IF a1 >= b1 THEN [v |-> a1, st |-> Rem(T, s2, n)]
  ELSE
  \* null move: R = 2, ply + 10, zero window at beta, same repetition key as the parent (as in the code)
  LET nm == IF allowNull /\ dd >= 3 /\ ~T.chk[n] /\ T.null[n] # 0
            THEN LET r == AB(T, Sw, T.null[n], dd - 3, ply + 10, -b1, -b1 + 1, FALSE, s2) IN
                 [cut |-> -r.v >= b1, st |-> r.st]
            ELSE [cut |-> FALSE, st |-> s2] IN
  IF nm.cut THEN [v |-> b1, st |-> Rem(T, nm.st, n)]
  ELSE
  LET ks == T.kids[n]  s3 == nm.st IN
  IF Len(ks) = 0 THEN [v |-> IF T.chk[n] THEN -(MATE - ply) ELSE 0, st |-> Rem(T, s3, n)]
  ELSE IF ply >= Sw.maxPly THEN [v |-> 0, st |-> [Rem(T, s3, n) EXCEPT !.oob = TRUE]]      \* pv_moves[ply]: index out of bounds
  ELSE
  LET r0 == AB(T, Sw, ks[1], dd - 1, ply + 1, -b1, -a1, TRUE, s3)
      best0 == -r0.v IN
  IF best0 > a1 /\ best0 >= b1 THEN [v |-> best0, st |-> Rem(T, r0.st, n)]
  ELSE Loop(T, Sw, n, ks, 2, dd, ply, IF best0 > a1 THEN best0 ELSE a1, b1, best0, r0.st)

Loop(T, Sw, n, ks, i, dd, ply, a, b, best, st) ==
  IF i > Len(ks) THEN [v |-> best, st |-> Rem(T, st, n)]
  ELSE LET z == AB(T, Sw, ks[i], dd - 1, ply + 1, -a - 1, -a, TRUE, st)
           zs == -z.v IN
       IF zs > a /\ zs < b
       THEN LET f == AB(T, Sw, ks[i], dd - 1, ply + 1, -b, -a, TRUE, z.st)
                fs == -f.v IN
            After(T, Sw, n, ks, i, dd, ply, IF fs > a THEN fs ELSE a, b, best, fs, f.st)
       ELSE After(T, Sw, n, ks, i, dd, ply, a, b, best, zs, z.st)

After(T, Sw, n, ks, i, dd, ply, a, b, best, sc, st) ==
  IF sc > best
  THEN IF sc >= b THEN [v |-> sc, st |-> Rem(T, st, n)]
       ELSE Loop(T, Sw, n, ks, i + 1, dd, ply, a, b, sc, st)
  ELSE Loop(T, Sw, n, ks, i + 1, dd, ply, a, b, best, st)

(***************************************************************************)
(* Root: iterative deepening, accept rule `eval > alpha /\ ~expired`,      *)
(* fallback send, PV-first reordering.  The outcome o records              *)
(*   infos: <<q, depth, nodes, score, root move>> per accepted improvement *)
(*   sends: root moves handed to the channel (in order)                    *)
(***************************************************************************)
RECURSIVE RootMoves(_, _, _, _, _, _, _), Deepen(_, _, _, _, _, _)
PvFirst(order, m) == IF m = 0 THEN order ELSE <<m>> \o SelectSeq(order, LAMBDA x : x # m)
RootMoves(T, Sw, order, i, cur, alpha, o) ==
  IF i > Len(order) THEN [o |-> o, stop |-> FALSE]
  ELSE
  LET t == Clock(o.st) IN
  IF t.exp
  THEN [o |-> [o EXCEPT !.st = t.st, !.sends = IF o.best = 0 THEN Append(@, order[1]) ELSE @], stop |-> TRUE]
  ELSE
  LET r == AB(T, Sw, order[i], cur - 1, 1, -POSINF, -alpha, TRUE, [t.st EXCEPT !.nodes = IF i = 1 THEN 0 ELSE @])
      ev == -r.v IN
  IF ev > alpha
  THEN LET t2 == Clock(r.st) IN
       IF ~t2.exp \/ ~Sw.rootGuard
       THEN RootMoves(T, Sw, order, i + 1, cur, ev,
               [infos |-> Append(o.infos, <<t2.st.q, cur, t2.st.nodes, ev, order[i]>>),
                sends |-> Append(o.sends, order[i]), best |-> order[i], st |-> t2.st])
       ELSE RootMoves(T, Sw, order, i + 1, cur, alpha, [o EXCEPT !.st = t2.st])
  ELSE RootMoves(T, Sw, order, i + 1, cur, alpha, [o EXCEPT !.st = r.st])

Deepen(T, Sw, cur, maxD, order, o) ==
  IF cur > maxD THEN o
  ELSE LET r == RootMoves(T, Sw, order, 1, cur, NEGINF, o) IN
       IF r.stop THEN r.o ELSE Deepen(T, Sw, cur + 1, maxD, PvFirst(T.roots, r.o.best), r.o)

Run(T, Sw, k, rep0, maxD) ==
  Deepen(T, Sw, 1, maxD, T.roots, [infos |-> <<>>, sends |-> <<>>, best |-> 0,
                                  st |-> [q |-> 0, k |-> k, rep |-> rep0, nodes |-> 0, oob |-> FALSE]])

\* text of a score as send_search_info prints it: <<"mate", Y>> or <<"cp", X>>
ScoreText(ev) == IF ev >= MATE - MateWindow THEN <<"mate", (MATE - ev + 1) \div 2>>
                 ELSE IF ev <= -MATE + MateWindow THEN <<"mate", -((MATE + ev) \div 2)>>
                 ELSE <<"cp", ev>>
\* total order the text induces: mate -1 < mate -2 < ... < cp x < ... < mate 2 < mate 1
ScoreRank(kind, val) == IF kind = "cp" THEN val
                        ELSE IF val > 0 THEN 2 * MATE - val ELSE -2 * MATE - val
=============================================================================
