------------------------------ MODULE MC_Search ------------------------------
(***************************************************************************)
(* Model checking of Search.tla: every tree of a generated family (random  *)
(* shapes, evaluations, check flags, repetition keys, mate / stalemate     *)
(* nodes, non-empty repetition records) x every clock expiry index k from  *)
(* 0 to the end of the search.  One TLC state = one (tree, k); the         *)
(* invariants evaluate two whole searches (k and unbounded).               *)
(***************************************************************************)
EXTENDS Search, SequencesExt, Json, IOUtils

CONSTANTS RepGE,        \* TRUE: repaired repetition test
          RootGuard,    \* TRUE: the root re-checks the clock before accepting
          MaxPly,       \* length of the per-ply tables (100 in the code; 3 in the configurations that exercise the bound)
          PlyGuard      \* TRUE: repaired - nodes beyond the tables are horizon nodes
Trees == ndJsonDeserialize(IOEnv.TREES)
MaxD == atoi(IOEnv.MAXD)
Sw == [repGE |-> RepGE, rootGuard |-> RootGuard, maxPly |-> MaxPly, plyGuard |-> PlyGuard]
Big == 100000000

Rep0(T) == [i \in {T.rep0[j][1] : j \in 1..Len(T.rep0)} |-> (T.rep0[CHOOSE j \in 1..Len(T.rep0) : T.rep0[j][1] = i][2])]
Full(T) == Run(T, Sw, Big, Rep0(T), MaxD)

VARIABLES ti, k
vars == <<ti, k>>
Init == /\ ti \in 1..Len(Trees)
        /\ k \in 0..Full(Trees[ti]).st.q
Next == UNCHANGED vars
Spec == Init /\ [][Next]_vars

Acc(r) == [i \in 1..Len(r.infos) |-> r.infos[i][5]]
LastOf(F, D) == LET idx == {i \in 1..Len(F.infos) : F.infos[i][2] = D} IN
                IF idx = {} THEN <<>> ELSE F.infos[CHOOSE i \in idx : \A j \in idx : j <= i]

\* C07: prefix, sends, repetition record restored, nothing after expiry
PrefixOk(R, F) == IsPrefix(R.infos, F.infos)
SendsOk(T, R) == R.sends = Acc(R) \/ (Acc(R) = <<>> /\ R.sends = <<T.roots[1]>>)
RepRestored(T, R) == Norm(R.st.rep) = Norm(Rep0(T))
NoPanic(R) == ~R.st.oob
\* C18: no sentinel, within mate magnitude, depth non-decreasing, strictly increasing inside a depth, mate never 0
ScoresOk(R) ==
  /\ \A i \in 1..Len(R.infos) : LET x == R.infos[i][4] IN
        x < POSINF /\ x > NEGINF /\ x <= MATE /\ x >= -MATE /\ (ScoreText(x)[1] = "mate" => ScoreText(x)[2] # 0)
  /\ \A i \in 1..(Len(R.infos) - 1) :
        /\ R.infos[i][2] <= R.infos[i + 1][2]
        /\ (R.infos[i][2] = R.infos[i + 1][2] => R.infos[i][4] < R.infos[i + 1][4])
\* C12: every completed depth <= 3 reports the reference value and the selected move attains it
Exact(T, F) == \A D \in 1..Min(MaxD, 3) :
                 LET li == LastOf(F, D) IN
                 li # <<>> => /\ li[4] = RootRef(T, D, Rep0(T))
                              /\ RootMoveRef(T, li[5], D, Rep0(T)) = li[4]
\* C10: a root move into a position already seen twice => completed-depth score never below zero
RepDraw(T, F) == (\E r \in ToSet(T.roots) : Cnt(Rep0(T), T.key[r]) >= 2) =>
                 \A D \in 1..MaxD : LET li == LastOf(F, D) IN li # <<>> => li[4] >= 0
\* C11: mate in one played after iteration 1
MateInOne(T, F) == (\E r \in ToSet(T.roots) : T.chk[r] /\ Len(T.kids[r]) = 0 /\ Cnt(Rep0(T), T.key[r]) < 2) =>
                   LET li == LastOf(F, 1) IN li # <<>> /\ T.chk[li[5]] /\ Len(T.kids[li[5]]) = 0 /\ li[4] = MATE - 1

AllOk == LET T == Trees[ti]
             F == Full(T)
             R == Run(T, Sw, k, Rep0(T), MaxD)
         IN /\ PrefixOk(R, F) /\ SendsOk(T, R) /\ RepRestored(T, R) /\ ScoresOk(R) /\ NoPanic(R)
            /\ (k = F.st.q => Exact(T, F) /\ RepDraw(T, F) /\ MateInOne(T, F))

\* the same, separately (used by the bug-variant configurations to name the failing conjunct)
InvPrefix == LET T == Trees[ti] IN PrefixOk(Run(T, Sw, k, Rep0(T), MaxD), Full(T))
InvSends == LET T == Trees[ti] IN SendsOk(T, Run(T, Sw, k, Rep0(T), MaxD))
InvRep == LET T == Trees[ti] IN RepRestored(T, Run(T, Sw, k, Rep0(T), MaxD))
InvScores == LET T == Trees[ti] IN ScoresOk(Run(T, Sw, k, Rep0(T), MaxD))
InvNoPanic == LET T == Trees[ti] IN NoPanic(Run(T, Sw, k, Rep0(T), MaxD))
InvExact == LET T == Trees[ti] IN Exact(T, Full(T))
InvRepDraw == LET T == Trees[ti] IN RepDraw(T, Full(T))
InvMateInOne == LET T == Trees[ti] IN MateInOne(T, Full(T))
=============================================================================
