SPECIFICATION Spec
CONSTANTS
  RepGE = TRUE
  RootGuard = TRUE
INVARIANT AllOk
CHECK_DEADLOCK FALSE
