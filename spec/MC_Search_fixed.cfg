SPECIFICATION Spec
CONSTANTS
  RepGE = TRUE
  RootGuard = TRUE
  MaxPly = 100
  PlyGuard = TRUE
INVARIANT AllOk
CHECK_DEADLOCK FALSE
