SPECIFICATION Spec
INVARIANT EmitAvoid
CHECK_DEADLOCK FALSE
